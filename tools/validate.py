#!/usr/bin/env python3
"""Validates MANIFEST.json and every evidence file against the task's schemas (needs the tooling venv: python3-vt)."""
import json, glob, sys, jsonschema
ok = True
m = json.load(open('/verif/MANIFEST.json'))
jsonschema.validate(m, json.load(open('/root/.vp/MANIFEST.schema.json')))
es = json.load(open('/root/.vp/EVIDENCE.schema.json'))
for c in m['checks']:
    try:
        e = json.load(open(c['evidence_file']))
        jsonschema.validate(e, es)
        cov = e['coverage']
        print(c['property_id'], e['tier'], 'evals', cov['evaluations'], 'nontrivial', cov['distinct_nontrivial'], 'samples', len(cov['samples']), 'viol', e.get('violations'))
    except Exception as ex:
        ok = False
        print(c['property_id'], 'INVALID', str(ex)[:200])
sys.exit(0 if ok else 1)
