#!/usr/bin/env python3
"""Regenerates /verif/MANIFEST.json and /verif/rules.json from one table (kept valid at all times)."""
import json, os, sys

ROOT = os.path.dirname(os.path.dirname(os.path.realpath(__file__)))

# property -> (technique, level text, level note, rule, assumptions)
T = {
 "C01": ("rapid generators over the pinned schema; round-trip oracle against an independent value tree",
         "Generated canonical values of all 170 types (plus every one of the 226 registered discriminator keys enumerated) are encoded and decoded by the library; the decoded value must equal the input bit-for-bit with the computed length/checksum fields replaced by values computed by an independent interpreter. Values include lengths around m*2^k and 10^k, repeated values/wire images, lists of one repeated boundary value, numbers mirroring lengths; a third of the cases are preceded by 1-3 other library calls in the same process (carried state). Sampling, not absence.",
         "Trusts the pinned schema snapshot for field kinds/widths (generator domain) and Go reflection for moving values in and out of the structs.",
         "case = (type, canonical value); non-trivial if it has text shorter than its field, an interior/other-side pad byte, a negative or NaN number, a list of length != 1, or a dynamic part; distinct by hash of (type, encoding)",
         ["list lengths up to 65535 for 16-bit counts; 32-bit-count lists and texts bounded at 70000"]),
 "C02": ("differential testing against an independent interpreter of the pinned schema, both directions, rapid-generated values",
         "For every type, library encoding of generated (also non-canonical) values is compared byte-for-byte with an interpreter of the committed schema snapshot that shares no code with the library; in the reverse direction schema-valid wire strings (raw field bytes) must be accepted and decode to what the interpreter parses. Non-triviality is measured: a case counts only if at least one perturbed schema (other byte order, pad, side, width, prefix width, swapped neighbours) renders it differently.",
         "The snapshot under /verif/schema (extracted once at the pinned commit, cross-checked encode-vs-decode, spot-checked against published SSE/SZSE layouts) is the specification; .pdsl sources are absent from the sandbox.",
         "case = (type, value, direction); non-trivial if >=1 of the perturbed renderings differs from the pinned one; distinct by hash of (type, direction, bytes)",
         ["schema snapshot == protocol definition at the pinned commit"]),
 "C03": ("metamorphic relation BE<->LE on every primitive pair (harness-side structural walk) + differential against the interpreter per message",
         "(a) for each big/little-endian primitive pair x prefix type x element type, generated values: LE output == BE output with every integer the harness itself locates byte-reversed, and LE reader on LE bytes == BE reader on BE bytes; (b) every message of every module equals the interpreter's rendering in the module's byte order.",
         "Hand-written sample.RiskControlRequest/SubOrder are big-endian prototypes outside sample.pdsl and are checked against their own record only.",
         "non-trivial if the value renders differently under the two byte orders (a multi-byte integer that is not a byte palindrome); list cases with >=2 elements and object lists counted as classes",
         []),
 "C04": ("stateful rapid histories (prior buffer content, partial consumption) with interpreter-located frame regions",
         "Frames of the four protocols with a self-computed length are encoded into buffers with generated history (earlier frames, partial consumption, drained and reused, pre-sized and almost consumed so that the buffer slides its content in the middle of the Encode, frames sized to hit that, a checksum service unregistered); the wire length field, the body bytes and the object's length field are compared with what the harness measures on exactly the bytes this Encode appended.",
         "Frame regions are located by the pinned schema.",
         "non-trivial if the frame was encoded at an offset > 0 of the unread region or after a partial consume, or its body is variable-length/empty/absent, or the caller's stale length differs from the true one",
         []),
 "C05": ("stateful rapid histories + reference checksum implementations (Rocksoft-model CRC, 64-bit byte sum) + independent receiver",
         "Checksummed frames (SSE, SZSE, sample) are encoded into buffers with generated history; the trailer must equal the reference algorithm over exactly this frame's bytes after the length patch, the object must report it, and an interpreter-side receiver must accept the frame. Frames whose checksum is 0, all-ones or the caller's stale value are constructed for every registered body type (CRC-32 solved over GF(2) for a free body field).",
         "Reference algorithms are the harness' own.",
         "non-trivial if the buffer held >=1 unread byte when the frame was encoded or the stale length/checksum differed from the correct one",
         []),
 "C06": ("model-based stateful testing (rapid t.Repeat) against a byte-slice model of the buffer",
         "Action sequences encodeNew / reencode / consume / prefill / drain over all types; after every step the unread bytes must equal the model (concatenation of stand-alone encodings).",
         "The stand-alone encoding used as the model entry is produced by the library into an empty buffer (the property is relative to that), cross-checked against the interpreter in C02.",
         "non-trivial if the history contains an encode into a buffer with unread bytes after a partial consume, or a re-encode of an already encoded object; distinct by hash of the action sequence",
         []),
 "C07": ("rapid: encodings followed by generated tails; stateful streams of mixed frames",
         "Decode of enc(m)++tail must leave exactly tail; n frames encoded back to back must be recovered by n decodes, equal to the originals, leaving the buffer empty.",
         "Canonical-domain generator from the pinned schema.",
         "non-trivial if the tail is non-empty or the stream has >=2 frames with >=2 distinct body types; zero-length types are trivial",
         []),
 "C08": ("rapid wire-level generator (raw field bytes) + native Go fuzzing in the thorough tier; decode->encode metamorphic oracle",
         "Wire strings built from raw field bytes (pad bytes anywhere, arbitrary lengths/checksums in frames) and mutated strings that happen to be accepted are decoded and re-encoded; output must equal the consumed bytes except self-computed fields, which must then be correct.",
         "Computed-field byte ranges come from the pinned schema.",
         "non-trivial if the accepted string is not in the image of the library's encoder on canonical values (differs from the encoding of its canonical re-decode) or carries non-canonical pad/NaN/stale computed fields",
         []),
 "C09": ("hostile-input generation located through the schema (rapid) + native coverage-guided fuzzing (thorough), under an address-space limit with a last-case file",
         "Every decoder is fed truncations, bit flips, hostile counts/lengths (max, 2^k, m*2^k, products that wrap), blank/zero/near-miss/number-syntax discriminators, random bytes and valid messages up to the generator cap, from exact-size and spare-capacity buffers, optionally after other calls in the same process; the call must return (nil or error). Panics are caught in-process; aborts/hangs are caught by the driver from the last-case file.",
         "Watchdog 20 s per case on inputs <= 64 KiB; address-space limit 6 GiB per shard.",
         "non-trivial if the input is rejected after at least one field was read, or accepted, or carries a maximal prefix; distinct by hash of (type, bytes)",
         []),
 "C10": ("schema-enumerated max-prefix inputs + rapid hostile inputs, allocation oracle via runtime.MemStats",
         "TotalAlloc delta around each Decode must stay below 32 KiB + 160 x len(input), and an input that only overstates a count/length may not allocate more than its truthful twin + 32 KiB + 24 x len(input), on schema-enumerated hostile prefixes (every count/length of every type at max, 2^k, m*2^k ...), generated hostile inputs, inputs in buffers with spare capacity, and inputs after earlier valid decodes in the same process; process death under the address-space limit is a violation.",
         "Bound constants justified in DESIGN.md 7.3/7.5: the absolute factor was raised from 64 to 160 after a property-preserving variant (append-grown list of 1-byte fixed texts) measured 84 bytes per input byte; the relative (twin) bound carries the sharp detection.",
         "non-trivial if a count/length prefix in the input claims more than the bytes present",
         []),
 "C11": ("exhaustive cut positions of rapid-generated canonical encodings",
         "Every strict prefix (all cut positions for encodings <= 4096 bytes) of generated valid encodings must be rejected with an error.",
         "Canonical-domain generator from the pinned schema.",
         "case = (value, cut); non-trivial if the encoding is non-empty and the cut falls inside a list, a prefixed text, a body or an extension; distinct by hash of (type, prefix bytes)",
         []),
 "C12": ("exhaustive enumeration of the 18 pinned tables (226 keys, all 65536 sample message types, all 1000 numeric ApplIDs per table) + rapid-generated unregistered keys",
         "Registered keys must build the pinned type on decode and on encoder materialisation and round-trip; unregistered keys must be errors wherever the library has to pick a type.",
         "Pinned tables from the schema snapshot.",
         "distinct (table, key, direction) triples; registered side exhaustive",
         []),
 "C13": ("rapid over width x all 256 pad bytes x both sides x arbitrary byte strings against a 6-line reference",
         "WriteFixedString[WithPadding], ReadFixedString[TrimPadding] and the four list variants are compared with the reference pad/cut/strip on generated inputs including non-UTF-8, NUL, all-pad and over-long text.",
         "none beyond the reference",
         "non-trivial if len(s) != N or s contains the pad byte; distinct by hash of (N, pad, side, s)",
         []),
 "C14": ("exhaustive enumeration of short inputs + rapid run-length inputs against Rocksoft-model CRC / 64-bit byte-sum references",
         "All byte strings of length <= 2 (quick) / <= 3 (thorough) for the four services, fixed inputs whose byte sum crosses 2^31, and generated run-length inputs up to megabytes; result, range, non-consumption and repeatability are checked.",
         "Reference implementations are the harness' own (MSB-first generic CRC with explicit reflection).",
         "non-trivial if the input has a byte >= 0x80, is longer than 255 bytes, or its byte sum reaches 2^31; distinct by hash of (algorithm, bytes)",
         []),
 "C15": ("rapid: same accepted bytes decoded into a fresh and into a dirty receiver",
         "The receiver is dirtied by decoding a different generated value of the same type or by filling every field; results must be equal bit-for-bit.",
         "Wire generator from the pinned schema.",
         "non-trivial if the dirty receiver differs from the result in at least one list length, nested part or dynamic type",
         []),
 "C16": ("rapid: mutate the buffer's backing array after decode / the message after encode and compare snapshots",
         "Decoded messages must not change when the source buffer is overwritten/reset/reused; written bytes must not change when the message is mutated.",
         "The harness owns the backing array passed to bytes.NewBuffer.",
         "non-trivial if the message contains at least one text or list",
         []),
 "C17": ("enumeration of zero/constructor values of all 170 types + rapid arbitrary values with absent parts",
         "Encode must return (bytes or error) and never panic on zero values, constructor results and arbitrary field contents, including absent nested parts and absent bodies/extensions under registered and unregistered keys.",
         "nil list elements and typed-nil interface contents are excluded as the property states.",
         "non-trivial if the case contains an absent part or is a zero/constructor value; programs = number of types exercised",
         []),
 "C18": ("boundary-value generation around each prefix maximum, primitive and message level",
         "Each prefixed writer at prefix widths 8 and 16 bits (built-in and defined prefix types) with lengths max-1, max, max+1, max+k, 2max+2 must error iff length > max and round-trip otherwise; an object list whose element refuses must report it; every 16-bit-prefixed field of every message, at top level and nested through parts, list elements and every body/extension type, is driven to max and max+1.",
         "32-bit prefixes are covered only through the shared generic code path (4 GiB values are not generated).",
         "non-trivial if the length is within 2 of a prefix maximum or beyond it",
         ["uint32-prefixed fields are not driven beyond 2^32-1"]),
 "C19": ("rapid-generated concurrent histories checked for linearizability with porcupine, plus contention rounds, under the race detector",
         "Small concurrent histories of Registry/Get/Remove/Clear at several GOMAXPROCS values are recorded with logical timestamps and checked against the sequential map model; large contention rounds assert single-winner; the binary is built with -race.",
         "The harness does not own the Go scheduler: schedules are sampled. Checked at GOMAXPROCS in {2,4,16}.",
         "non-trivial if the history has >=2 operations on the same name overlapping in time; distinct by hash of the recorded history",
         ["schedules are sampled, not enumerated"]),
 "C20": ("rapid-generated batches run sequentially then in parallel goroutines, differential on results, under the race detector",
         "Batches of (type, value) pairs over all protocols are encoded/decoded sequentially for reference, then by G in {2,8,32} goroutines on their own objects and buffers, plus one crowd of 2500 goroutines per shard kept inside the library for 1.5 s; every result must equal the sequential one; built with -race.",
         "Schedules are sampled.",
         "non-trivial if the batch mixes >=3 protocols, >=1 checksummed frame and >=1 extended message; distinct by hash of the batch",
         ["schedules are sampled, not enumerated"]),
}

CLAIMED = os.environ.get("CLAIMED", "").split() or sorted(T)

def main():
    claimed = [l.strip() for l in open(os.path.join(ROOT, "tools", "claimed.txt")) if l.strip() and not l.startswith("#")]
    hooks_commits = []
    checks, na = [], []
    for pid in sorted(T):
        tech, text, note, rule, assum = T[pid]
        if pid in claimed:
            checks.append({
                "property_id": pid,
                "quick_cmd": "./check %s quick" % pid,
                "thorough_cmd": "./check %s thorough" % pid,
                "evidence_file": "/verif/evidence/%s.json" % pid,
                "replay_cmd_template": "./check %s --replay {path}" % pid,
                "engine": "harness",
                "level_claimed": {"category": "exploration", "text": text, "design_ref": "DESIGN.md section 3, " + pid},
                "level_note": note,
                "technique": tech,
            })
        else:
            na.append({"property_id": pid, "reason": "not claimed yet: its generated check is still being built (nothing in the technique prevents it; see DESIGN.md section 3)"})
    m = {
        "version": 1,
        "setup_cmd": "./check setup",
        "hooks": {
            "guard": "verif",
            "enable": "go test -c -tags verif (no hook is needed: every property is observable through the public API; the tag is passed so one could be added without changing commands)",
            "baseline_off_cmd": "cd /repo && GOFLAGS=-mod=mod GOPROXY=off go test -vet=off -count=1 ./...",
            "source_commits": hooks_commits,
            "add_only": True,
        },
        "engines": [{"name": "harness", "path": "/verif/harness", "serves_properties": claimed,
                     "kind_free_text": "Go test binary: rapid v1.3.0 generators driven by a pinned schema, independent interpreter oracle, native go fuzz targets; python driver ./check shards it over processes"}],
        "checks": checks,
        "notes": "All checks: ./check <ID> quick|thorough, exit 0 held / 1 VIOLATION / 2 inconclusive-or-broken. Seeds from VERIF_SEED. Genuine defects repaired by fix: commits are listed in known_findings.json.",
        "not_applicable": na,
    }
    json.dump(m, open(os.path.join(ROOT, "MANIFEST.json"), "w"), indent=1)
    rules = {pid: {"rule": T[pid][3], "assumptions": T[pid][4]} for pid in T}
    json.dump(rules, open(os.path.join(ROOT, "rules.json"), "w"), indent=1)
    print("claimed:", " ".join(claimed))

if __name__ == "__main__":
    main()
