// extractschema: ONE-OFF audit tool. It produced /verif/schema/*.json and
// /verif/harness/registry_gen.go from the generated Encode bodies of
// fin-proto-go at the pinned commit, cross-checked against the Decode bodies
// and the struct definitions. Checks never run it: the pinned snapshot is the
// specification, not something to re-derive from the code under test.
//
// usage: go run . <repo> <outdir-schema> <registry_gen.go>
package main

import (
	"bytes"
	"encoding/json"
	"fmt"
	"go/ast"
	"go/parser"
	"go/printer"
	"go/token"
	"os"
	"path/filepath"
	"regexp"
	"sort"
	"strconv"
	"strings"
)

type Field struct {
	Go     string `json:"go"`
	JSON   string `json:"json,omitempty"`
	Kind   string `json:"kind"`
	NType  string `json:"ntype,omitempty"`
	Width  int    `json:"width,omitempty"`
	Pad    int    `json:"pad"`
	Left   bool   `json:"left,omitempty"`
	Prefix string `json:"prefix,omitempty"`
	Count  string `json:"count,omitempty"`
	Elem   string `json:"elem,omitempty"`
	Table  string `json:"table,omitempty"`
	Disc   string `json:"disc,omitempty"`
	NilEnc string `json:"nil_on_encode,omitempty"`
	Algo   string `json:"algo,omitempty"`
}

type Type struct {
	Name        string  `json:"name"`
	File        string  `json:"file"`
	Ctor        string  `json:"ctor,omitempty"`
	Handwritten bool    `json:"handwritten,omitempty"`
	Endian      string  `json:"endian,omitempty"` // only when it differs from the module (hand-written types)
	Fields      []Field `json:"fields"`
}

type Table struct {
	Name    string            `json:"name"`
	KeyType string            `json:"keytype"` // uint32 | uint16 | text
	Lookup  string            `json:"lookup"`  // New…MessageBy… function
	Entries map[string]string `json:"entries"`
	Order   []string          `json:"order"`
}

type Module struct {
	Module string   `json:"module"`
	Dir    string   `json:"dir"`
	Pkg    string   `json:"pkg"`
	Import string   `json:"import"`
	Endian string   `json:"endian"`
	Source string   `json:"source"`
	Types  []*Type  `json:"types"`
	Tables []*Table `json:"tables"`
}

var fset = token.NewFileSet()

func src(n any) string {
	var b bytes.Buffer
	printer.Fprint(&b, fset, n)
	return b.String()
}

func die(f string, a ...any) { fmt.Fprintf(os.Stderr, f+"\n", a...); os.Exit(1) }

var (
	reWrite   = regexp.MustCompile(`^if err := codec\.(Write[A-Za-z]+)(?:\[([^\]]*)\])?\(buf, ([^;]*)\); err != nil`)
	reRead    = regexp.MustCompile(`^if val, err := codec\.(Read[A-Za-z]+)(?:\[([^\]]*)\])?\(buf(?:, ([^;]*))?\); err != nil`)
	reAssignP = regexp.MustCompile(`p\.([A-Za-z0-9_]+) = val`)
	reObjEnc  = regexp.MustCompile(`^if err := p\.([A-Za-z0-9_]+)\.Encode\(buf\); err != nil`)
	reObjDec  = regexp.MustCompile(`^if err := p\.([A-Za-z0-9_]+)\.Decode\(buf\); err != nil`)
	reNotNil  = regexp.MustCompile(`^if p\.([A-Za-z0-9_]+) != nil \{`)
	reIsNil   = regexp.MustCompile(`^if p\.([A-Za-z0-9_]+) == nil \{`)
	reLookup  = regexp.MustCompile(`(New[A-Za-z0-9]+MessageBy[A-Za-z0-9]+)\(p\.([A-Za-z0-9_]+)\)`)
	reLenSet  = regexp.MustCompile(`^p\.([A-Za-z0-9_]+) = uint32\(([a-zA-Z]+)End - ([a-zA-Z]+)Start\)`)
	reCk      = regexp.MustCompile(`^if checksumService, ok := codec\.Get\("([A-Z0-9_]+)"\); ok`)
	reReg     = regexp.MustCompile(`^(Registry[A-Za-z0-9]+Factory)\((.+?), func\(\) codec\.BinaryCodec \{ return &([A-Za-z0-9_]+)\{\} \}\)$`)
	reNewElem = regexp.MustCompile(`func\(\) \*([A-Za-z0-9_]+) \{`)
)

func charLit(s string) int {
	r, _, _, err := strconv.UnquoteChar(strings.Trim(s, "'"), '\'')
	if err != nil {
		die("bad char literal %s", s)
	}
	return int(r)
}

type structInfo struct {
	fields map[string]string // go name -> type source
	tags   map[string]string
	order  []string
}

func splitArgs(s string) []string {
	parts := strings.Split(s, ", ")
	return parts
}

func parseEncodeStmt(first string, full string, si *structInfo, st *encState) {
	switch {
	case reWrite.MatchString(first):
		m := reWrite.FindStringSubmatch(first)
		fn, targs, args := m[1], m[2], splitArgs(m[3])
		le := strings.HasSuffix(fn, "LE")
		base := strings.TrimSuffix(fn, "LE")
		if base != "WriteFixedString" && base != "WriteFixedStringWithPadding" {
			st.noteEndian(le)
		}
		target := args[0]
		if target == "uint32(0)" {
			// computed-length placeholder
			st.fields = append(st.fields, Field{Kind: "len", NType: "uint32"})
			st.pendingLen = len(st.fields) - 1
			return
		}
		if !strings.HasPrefix(target, "p.") {
			die("unexpected write target %q", first)
		}
		name := strings.TrimPrefix(target, "p.")
		gotype := si.fields[name]
		f := Field{Go: name, JSON: si.tags[name]}
		switch base {
		case "WriteBasicType":
			f.Kind, f.NType = "num", gotype
			if st.pendingCk != "" {
				f.Kind, f.Algo = "checksum", st.pendingCk
				st.pendingCk = ""
			}
		case "WriteFixedString":
			f.Kind = "fixtext"
			f.Width, _ = strconv.Atoi(args[1])
			f.Pad = ' '
		case "WriteFixedStringWithPadding":
			f.Kind = "fixtext"
			f.Width, _ = strconv.Atoi(args[1])
			f.Pad = charLit(args[2])
			f.Left = args[3] == "true"
		case "WriteString":
			f.Kind, f.Prefix = "text", targs
		case "WriteBasicTypeList":
			f.Kind, f.Count = "numlist", targs
			f.NType = strings.TrimPrefix(gotype, "[]")
		case "WriteFixedStringList":
			f.Kind, f.Count = "fixtextlist", targs
			f.Width, _ = strconv.Atoi(args[1])
			f.Pad = ' '
		case "WriteFixedStringListWithPadding":
			f.Kind, f.Count = "fixtextlist", targs
			f.Width, _ = strconv.Atoi(args[1])
			f.Pad = charLit(args[2])
			f.Left = args[3] == "true"
		case "WriteStringList":
			tk := strings.Split(targs, ", ")
			f.Kind, f.Count, f.Prefix = "textlist", tk[0], tk[1]
		case "WriteObjectList":
			f.Kind, f.Count = "objlist", targs
			f.Elem = strings.TrimPrefix(gotype, "[]*")
		default:
			die("unknown writer %s", fn)
		}
		st.fields = append(st.fields, f)
	case reObjEnc.MatchString(first):
		name := reObjEnc.FindStringSubmatch(first)[1]
		gotype := si.fields[name]
		if gotype == "codec.BinaryCodec" {
			if st.pendingDyn == nil || st.pendingDyn.Go != name {
				die("dyn encode without nil handling: %s", first)
			}
			st.fields = append(st.fields, *st.pendingDyn)
			st.pendingDyn = nil
		} else if strings.HasPrefix(gotype, "*") {
			st.fields = append(st.fields, Field{Go: name, JSON: si.tags[name], Kind: "obj", Elem: strings.TrimPrefix(gotype, "*")})
		} else {
			die("unexpected nested encode %s (%s)", first, gotype)
		}
	case reNotNil.MatchString(first):
		name := reNotNil.FindStringSubmatch(first)[1]
		if !strings.Contains(full, "p."+name+".Encode(buf)") {
			die("skip form without encode: %s", full)
		}
		st.fields = append(st.fields, Field{Go: name, JSON: si.tags[name], Kind: "dyn", NilEnc: "skip"})
	case reIsNil.MatchString(first):
		name := reIsNil.FindStringSubmatch(first)[1]
		m := reLookup.FindStringSubmatch(full)
		if m == nil {
			die("materialise form without lookup: %s", full)
		}
		st.pendingDyn = &Field{Go: name, JSON: si.tags[name], Kind: "dyn", NilEnc: "materialise", Table: m[1], Disc: m[2]}
	case reLenSet.MatchString(first):
		m := reLenSet.FindStringSubmatch(first)
		if st.pendingLen < 0 {
			die("length set without placeholder")
		}
		st.fields[st.pendingLen].Go = m[1]
		st.fields[st.pendingLen].JSON = si.tags[m[1]]
		st.fields[st.pendingLen].NType = si.fields[m[1]]
		st.pendingLen = -1
	case reCk.MatchString(first):
		st.pendingCk = reCk.FindStringSubmatch(first)[1]
	case strings.HasSuffix(first, ":= buf.Len()"), strings.HasPrefix(first, "binary."), first == "return nil":
	default:
		die("unrecognised encode statement: %s", first)
	}
}

type encState struct {
	fields     []Field
	pendingLen int
	pendingCk  string
	pendingDyn *Field
	le, be     int
}

func (s *encState) noteEndian(le bool) {
	if le {
		s.le++
	} else {
		s.be++
	}
}

// decode side: independent second derivation, used only for the mirror cross-check
func parseDecodeStmt(first, full string, si *structInfo, st *encState) {
	switch {
	case reRead.MatchString(first):
		m := reRead.FindStringSubmatch(first)
		fn, targs := m[1], m[2]
		var args []string
		if m[3] != "" {
			args = splitArgs(m[3])
		}
		am := reAssignP.FindStringSubmatch(full)
		if am == nil {
			die("read without assignment: %s", full)
		}
		name := am[1]
		base := strings.TrimSuffix(fn, "LE")
		if base != "ReadFixedString" && base != "ReadFixedStringTrimPadding" {
			st.noteEndian(strings.HasSuffix(fn, "LE"))
		}
		f := Field{Go: name, JSON: si.tags[name]}
		switch base {
		case "ReadBasicType":
			f.Kind, f.NType = "num", targs
		case "ReadFixedString":
			f.Kind, f.Pad = "fixtext", ' '
			f.Width, _ = strconv.Atoi(args[0])
		case "ReadFixedStringTrimPadding":
			f.Kind = "fixtext"
			f.Width, _ = strconv.Atoi(args[0])
			f.Pad, f.Left = charLit(args[1]), args[2] == "true"
		case "ReadString":
			f.Kind, f.Prefix = "text", targs
		case "ReadBasicTypeList":
			tk := strings.Split(targs, ", ")
			f.Kind, f.Count, f.NType = "numlist", tk[0], tk[1]
		case "ReadFixedStringList":
			f.Kind, f.Count, f.Pad = "fixtextlist", targs, ' '
			f.Width, _ = strconv.Atoi(args[0])
		case "ReadFixedStringListTrimPadding":
			f.Kind, f.Count = "fixtextlist", targs
			f.Width, _ = strconv.Atoi(args[0])
			f.Pad, f.Left = charLit(args[1]), args[2] == "true"
		case "ReadStringList":
			tk := strings.Split(targs, ", ")
			f.Kind, f.Count, f.Prefix = "textlist", tk[0], tk[1]
		case "ReadObjectList":
			f.Kind, f.Count = "objlist", targs
			f.Elem = reNewElem.FindStringSubmatch(first)[1]
		default:
			die("unknown reader %s", fn)
		}
		st.fields = append(st.fields, f)
	case strings.HasPrefix(first, "if val, err := New"):
		m := reLookup.FindStringSubmatch(first)
		am := reAssignP.FindStringSubmatch(full)
		st.pendingDyn = &Field{Go: am[1], JSON: si.tags[am[1]], Kind: "dyn", Table: m[1], Disc: m[2]}
	case reObjDec.MatchString(first):
		name := reObjDec.FindStringSubmatch(first)[1]
		if st.pendingDyn != nil && st.pendingDyn.Go == name {
			st.fields = append(st.fields, *st.pendingDyn)
			st.pendingDyn = nil
		} else {
			gotype := si.fields[name]
			st.fields = append(st.fields, Field{Go: name, JSON: si.tags[name], Kind: "obj", Elem: strings.TrimPrefix(gotype, "*")})
		}
	case reIsNil.MatchString(first), first == "return nil":
	default:
		die("unrecognised decode statement: %s", first)
	}
}

func stmts(fd *ast.FuncDecl) (out [][2]string) {
	for _, s := range fd.Body.List {
		full := src(s)
		first := strings.SplitN(full, "\n", 2)[0]
		out = append(out, [2]string{first, full})
	}
	return
}

type modSpec struct{ module, dir, endian, source string }

func main() {
	if len(os.Args) != 4 {
		die("usage: extractschema <repo> <schema-outdir> <registry_gen.go>")
	}
	repo, outdir, regfile := os.Args[1], os.Args[2], os.Args[3]
	mods := []modSpec{
		{"sse", "sse-bin", "BE", "sse_bin_v0.57"},
		{"szse", "szse-bin", "BE", "szse_bin_v1.29"},
		{"bjse", "bjse-trade-bin", "LE", "bse_trade_bin_v0.9"},
		{"risk", "risk-bin", "BE", "risk_v0.1.0"},
		{"sample", "sample-bin", "LE", "sample"},
	}
	var all []*Module
	for _, ms := range mods {
		dir := filepath.Join(repo, ms.dir, "messages")
		pkgs, err := parser.ParseDir(fset, dir, func(fi os.FileInfo) bool { return !strings.HasSuffix(fi.Name(), "_test.go") }, parser.ParseComments)
		if err != nil {
			die("%v", err)
		}
		if len(pkgs) != 1 {
			die("expected one package in %s", dir)
		}
		mod := &Module{Module: ms.module, Dir: ms.dir, Endian: ms.endian, Source: ms.source,
			Import: "github.com/xinchentechnote/fin-proto-go/" + ms.dir + "/messages"}
		for name, pkg := range pkgs {
			mod.Pkg = name
			fnames := make([]string, 0)
			for fn := range pkg.Files {
				fnames = append(fnames, fn)
			}
			sort.Strings(fnames)
			structs := map[string]*structInfo{}
			enc := map[string]*ast.FuncDecl{}
			dec := map[string]*ast.FuncDecl{}
			ctor := map[string]string{}
			fileOf := map[string]string{}
			generated := map[string]bool{}
			tables := map[string]*Table{}
			var typeOrder []string
			for _, fn := range fnames {
				file := pkg.Files[fn]
				gen := false
				for _, cg := range file.Comments {
					if strings.Contains(cg.Text(), "Code generated by fin-protoc") {
						gen = true
					}
				}
				for _, d := range file.Decls {
					switch d := d.(type) {
					case *ast.GenDecl:
						for _, sp := range d.Specs {
							ts, ok := sp.(*ast.TypeSpec)
							if !ok {
								continue
							}
							stt, ok := ts.Type.(*ast.StructType)
							if !ok {
								continue
							}
							si := &structInfo{fields: map[string]string{}, tags: map[string]string{}}
							for _, f := range stt.Fields.List {
								for _, n := range f.Names {
									si.fields[n.Name] = src(f.Type)
									si.order = append(si.order, n.Name)
									if f.Tag != nil {
										tag, _ := strconv.Unquote(f.Tag.Value)
										if m := regexp.MustCompile(`json:"([^"]*)"`).FindStringSubmatch(tag); m != nil {
											si.tags[n.Name] = m[1]
										}
									}
								}
							}
							structs[ts.Name.Name] = si
							fileOf[ts.Name.Name] = filepath.Base(fn)
							generated[ts.Name.Name] = gen
							typeOrder = append(typeOrder, ts.Name.Name)
						}
					case *ast.FuncDecl:
						if d.Recv != nil {
							rt := strings.TrimPrefix(src(d.Recv.List[0].Type), "*")
							if d.Name.Name == "Encode" {
								enc[rt] = d
							}
							if d.Name.Name == "Decode" {
								dec[rt] = d
							}
						} else if strings.HasPrefix(d.Name.Name, "New") && d.Type.Results != nil && len(d.Type.Results.List) == 1 && d.Type.Params.NumFields() == 0 {
							rt := strings.TrimPrefix(src(d.Type.Results.List[0].Type), "*")
							ctor[rt] = d.Name.Name
						} else if d.Name.Name == "init" {
							for _, s := range d.Body.List {
								line := src(s)
								m := reReg.FindStringSubmatch(line)
								if m == nil {
									die("unrecognised init statement %s", line)
								}
								t := tables[m[1]]
								if t == nil {
									t = &Table{Name: m[1], Entries: map[string]string{}}
									tables[m[1]] = t
								}
								key := m[2]
								if strings.HasPrefix(key, `"`) {
									key, _ = strconv.Unquote(key)
									t.KeyType = "text"
								}
								if _, dup := t.Entries[key]; dup {
									die("duplicate key %s in %s", key, m[1])
								}
								t.Entries[key] = m[3]
								t.Order = append(t.Order, key)
							}
						} else if strings.HasPrefix(d.Name.Name, "Registry") && strings.HasSuffix(d.Name.Name, "Factory") {
							t := tables[d.Name.Name]
							if t == nil {
								t = &Table{Name: d.Name.Name, Entries: map[string]string{}}
								tables[d.Name.Name] = t
							}
							kt := src(d.Type.Params.List[0].Type)
							if kt == "string" {
								kt = "text"
							}
							t.KeyType = kt
						}
					}
				}
			}
			// map lookup function -> table: New<X>MessageBy<Y>  <-> Registry<X><Y>Factory
			lookupOf := map[string]string{}
			for tn := range tables {
				core := strings.TrimSuffix(strings.TrimPrefix(tn, "Registry"), "Factory")
				for _, suf := range []string{"MsgType", "ApplId"} {
					if strings.HasSuffix(core, suf) {
						lf := "New" + strings.TrimSuffix(core, suf) + "MessageBy" + suf
						lookupOf[lf] = tn
						tables[tn].Lookup = lf
					}
				}
			}
			for _, tn := range typeOrder {
				if enc[tn] == nil || dec[tn] == nil {
					continue
				}
				ty := &Type{Name: tn, File: fileOf[tn], Ctor: ctor[tn]}
				if !generated[tn] {
					ty.Handwritten = true
					mod.Types = append(mod.Types, ty) // fields filled from hand-written records below
					continue
				}
				si := structs[tn]
				es := &encState{pendingLen: -1}
				for _, s := range stmts(enc[tn]) {
					if strings.HasPrefix(s[0], "//") {
						continue
					}
					parseEncodeStmt(s[0], s[1], si, es)
				}
				ds := &encState{pendingLen: -1}
				for _, s := range stmts(dec[tn]) {
					parseDecodeStmt(s[0], s[1], si, ds)
				}
				// endianness consistency inside the module
				if (ms.endian == "BE" && (es.le > 0 || ds.le > 0)) || (ms.endian == "LE" && (es.be > 0 || ds.be > 0)) {
					die("%s.%s mixes byte orders", ms.module, tn)
				}
				// mirror cross-check
				if len(es.fields) != len(ds.fields) {
					die("%s.%s: encode has %d fields, decode %d", ms.module, tn, len(es.fields), len(ds.fields))
				}
				for i := range es.fields {
					e, d := es.fields[i], ds.fields[i]
					if e.Kind == "dyn" {
						if d.Kind != "dyn" || d.Go != e.Go {
							die("%s.%s field %d: dyn mismatch", ms.module, tn, i)
						}
						if e.Table != "" && (e.Table != d.Table || e.Disc != d.Disc) {
							die("%s.%s: encode/decode use different tables", ms.module, tn)
						}
						es.fields[i].Table, es.fields[i].Disc = lookupOf[d.Table], d.Disc
						if es.fields[i].Table == "" {
							die("no table for %s", d.Table)
						}
						continue
					}
					if e.Kind == "len" || e.Kind == "checksum" {
						if d.Kind != "num" || d.Go != e.Go || d.NType != e.NType {
							die("%s.%s field %s: computed field mismatch %v vs %v", ms.module, tn, e.Go, e, d)
						}
						continue
					}
					if e != d {
						die("%s.%s field %d: encode %+v != decode %+v", ms.module, tn, i, e, d)
					}
				}
				// every struct field is on the wire exactly once
				seen := map[string]bool{}
				for _, f := range es.fields {
					if seen[f.Go] {
						die("%s.%s: %s encoded twice", ms.module, tn, f.Go)
					}
					seen[f.Go] = true
				}
				for _, fn := range si.order {
					if !seen[fn] {
						die("%s.%s: struct field %s never encoded", ms.module, tn, fn)
					}
				}
				ty.Fields = es.fields
				if ty.Fields == nil {
					ty.Fields = []Field{}
				}
				mod.Types = append(mod.Types, ty)
			}
			tnames := make([]string, 0)
			for tn := range tables {
				tnames = append(tnames, tn)
			}
			sort.Strings(tnames)
			for _, tn := range tnames {
				mod.Tables = append(mod.Tables, tables[tn])
			}
		}
		// hand-written records (sample only)
		for _, ty := range mod.Types {
			if !ty.Handwritten {
				continue
			}
			ty.Endian = "BE"
			switch ty.Name {
			case "SubOrder":
				ty.Fields = []Field{
					{Go: "ClOrdID", Kind: "fixtext", Width: 16, Pad: ' '},
					{Go: "Price", Kind: "num", NType: "uint64"},
					{Go: "Qty", Kind: "num", NType: "uint32"},
				}
			case "RiskControlRequest":
				ty.Fields = []Field{
					{Go: "UniqueOrderID", Kind: "text", Prefix: "uint16"},
					{Go: "ClOrdID", Kind: "fixtext", Width: 16, Pad: ' '},
					{Go: "MarketID", Kind: "fixtext", Width: 3, Pad: ' '},
					{Go: "SecurityID", Kind: "fixtext", Width: 12, Pad: ' '},
					{Go: "Side", Kind: "num", NType: "uint8"},
					{Go: "OrderType", Kind: "num", NType: "uint8"},
					{Go: "Price", Kind: "num", NType: "uint64"},
					{Go: "Qty", Kind: "num", NType: "uint32"},
					{Go: "ExtraInfo", Kind: "textlist", Count: "uint16", Prefix: "uint16"},
					{Go: "SubOrder", Kind: "objval", Elem: "SubOrder"},
				}
			default:
				die("no hand-written record for %s", ty.Name)
			}
		}
		all = append(all, mod)
		b, _ := json.MarshalIndent(mod, "", " ")
		if err := os.WriteFile(filepath.Join(outdir, ms.module+".json"), append(b, '\n'), 0o644); err != nil {
			die("%v", err)
		}
	}
	// registry_gen.go
	var g bytes.Buffer
	g.WriteString("// Code generated by /verif/tools/extractschema at the pinned commit. DO NOT EDIT.\n// The list of the 170 codec types and how to construct each.\npackage harness\n\nimport (\n")
	for _, m := range all {
		fmt.Fprintf(&g, "\t%s %q\n", m.Module, m.Import)
	}
	g.WriteString(")\n\nvar registry = []RegEntry{\n")
	nt, nk := 0, 0
	for _, m := range all {
		for _, t := range m.Types {
			nt++
			c := "nil"
			if t.Ctor != "" {
				c = fmt.Sprintf("func() any { return %s.%s() }", m.Module, t.Ctor)
			}
			fmt.Fprintf(&g, "\t{Name: %q, New: func() any { return &%s.%s{} }, Ctor: %s},\n", m.Module+"."+t.Name, m.Module, t.Name, c)
		}
		for _, t := range m.Tables {
			nk += len(t.Entries)
		}
	}
	g.WriteString("}\n")
	if err := os.WriteFile(regfile, g.Bytes(), 0o644); err != nil {
		die("%v", err)
	}
	fmt.Printf("types=%d tables-keys=%d\n", nt, nk)
}
