module extractschema

go 1.24.2
