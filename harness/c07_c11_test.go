package harness

// C07 — decoding consumes exactly one message's bytes; back-to-back messages stream.
// C11 — every strict prefix of a valid encoding is rejected.

import (
	"bytes"
	"fmt"
	"testing"

	"pgregory.net/rapid"
)

type CaseStream struct {
	Items []*Value `json:"items"`
	Tail  HexBytes `json:"tail,omitempty"`
	Reuse bool     `json:"reuse,omitempty"` // successive messages of one type are decoded into the same receiver object
	Loose bool     `json:"loose,omitempty"` // items are arbitrary encodable values (over-long text, all-pad text ...): the decoded value is compared with the interpreter's reading of the bytes the encoder produced
	Chunk []int    `json:"chunk,omitempty"` // per item: if > 0, the receiver is first offered only the first Chunk[i] mod len bytes of the item (a partial segment), which fails; then the whole stream continues
	// Refused: before item At, the sender tries to put another message into the same buffer, the encoder refuses it
	// half-way (unregistered application id with the extension left out; a list one entry beyond its count prefix) and
	// the sender drops whatever the attempt wrote (bytes.Buffer.Truncate). The stream must be unaffected.
	Refused []RefusedAt `json:"refused,omitempty"`
}

type RefusedAt struct {
	At  int         `json:"at"`
	V   *Value      `json:"v,omitempty"`   // small refused value
	Big *CaseC18Msg `json:"big,omitempty"` // or: a message with one field blown up beyond its prefix (built on demand)
}

var refusedTargets = map[string][]CaseC18Msg{}

// refusedBigTargets: every 16-bit-prefixed field reachable from the module's frame, one entry beyond its maximum.
func refusedBigTargets(module string) []CaseC18Msg {
	if t, ok := refusedTargets[module]; ok {
		return t
	}
	var out []CaseC18Msg
	fr := frameOf(module)
	fts := Types[fr]
	nkeys := len(TableOf(fts, &fts.Fields[fts.DynIndex()]).Order)
	seen := map[string]bool{}
	for k := 0; k < nkeys; k++ {
		var targets []c18Target
		sk := Skeleton(fr, k)
		c18Targets(sk, nil, &targets, 0)
		for _, tg := range targets {
			id := sk.F[fts.DynIndex()].O.Type + fmt.Sprint(tg.path[min(1, len(tg.path)):], tg.field, tg.inner)
			if NSize(tg.ptype) != 2 || len(tg.path) == 0 || seen[id] {
				continue
			}
			seen[id] = true
			out = append(out, CaseC18Msg{Type: fr, Key: k, Path: tg.path, Field: tg.field, Inner: tg.inner, N: int(NMask(tg.ptype)) + 1})
		}
	}
	refusedTargets[module] = out
	return out
}

// genRefused draws a message of the module that its encoder refuses after having written part of it.
func genRefused(rt *rapid.T, module string) (RefusedAt, bool) {
	var tbs []*Table
	for _, tb := range TableList {
		if tb.Module == module && !Types[holderOf(tb)].IsFrame() {
			tbs = append(tbs, tb)
		}
	}
	big := refusedBigTargets(module)
	if len(tbs) == 0 && len(big) == 0 {
		return RefusedAt{}, false
	}
	if len(tbs) == 0 || len(big) > 0 && rapid.IntRange(0, 3).Draw(rt, "refusedbig") == 0 {
		b := big[rapid.IntRange(0, len(big)-1).Draw(rt, "bigtarget")]
		return RefusedAt{Big: &b}, true
	}
	tb := tbs[rapid.IntRange(0, len(tbs)-1).Draw(rt, "rtable")]
	holder := holderOf(tb)
	hts := Types[holder]
	g := &gen{rt: rt, feat: &Features{}, mult: 1}
	key := g.unregisteredKey("rkey", tb, &hts.Fields[hts.FieldIndex(hts.Fields[hts.DynIndex()].Disc)])
	hv := holderWithKeyRT(rt, tb, key, false, "")
	if rapid.Bool().Draw(rt, "inframe") {
		fr := frameOf(module)
		fts := Types[fr]
		ftb := TableOf(fts, &fts.Fields[fts.DynIndex()])
		for _, fk := range ftb.Order {
			if ftb.TypeFor(fk) == holder {
				fv, _ := GenValue(rt, fr, GenOpts{Mode: Canonical, MaxList: 20, ForceKey: fk})
				fv.F[fts.DynIndex()].O = hv
				return RefusedAt{V: fv}, true
			}
		}
	}
	return RefusedAt{V: hv}, true
}

func oracleC07(c *CaseStream) *Failure {
	// n messages encoded one after another into one buffer ...
	buf := &bytes.Buffer{}
	ends := make([]int, len(c.Items))
	for i, v := range c.Items {
		for _, r := range c.Refused {
			if r.At != i {
				continue
			}
			rv := r.V
			if r.Big != nil {
				rv, _, _ = c18Build(r.Big)
			}
			if rv == nil {
				continue
			}
			prev := buf.Len()
			rerr, rpan, _ := safely(func() error { return EncodeAny(ToStruct(rv), buf) })
			if rpan != nil {
				return nil // C17's business
			}
			if rerr == nil {
				Col.Class("refused-candidate-was-accepted(dropped by the sender all the same)", 1)
			}
			buf.Truncate(prev) // the sender drops the attempt
		}
		err, pan, _ := safely(func() error { return EncodeAny(ToStruct(v), buf) })
		if err != nil || pan != nil {
			if c.Loose && pan == nil {
				return nil // an arbitrary value the encoder refuses: nothing to stream (C17/C02 judge refusals)
			}
			return failf("C07/"+v.Type+"/encode", "item %d: canonical value not encodable: err=%v panic=%v", i, err, pan)
		}
		ends[i] = buf.Len()
	}
	buf.Write(c.Tail)
	wire := append([]byte{}, buf.Bytes()...)
	// ... are recovered by n successive decodes
	receivers := map[string]any{}
	for i, v := range c.Items {
		obj := regByName[v.Type].New()
		if c.Reuse {
			if o, ok := receivers[v.Type]; ok {
				obj = o
			} else {
				receivers[v.Type] = obj
			}
		}
		sig := "C07/" + v.Type
		if i < len(c.Chunk) && c.Chunk[i] > 0 && ends[i] > startOf(ends, i) {
			// a partial segment arrives first: the attempt fails (C11) and must leave nothing behind that changes the next decode
			k := c.Chunk[i] % (ends[i] - startOf(ends, i))
			part := bytes.NewBuffer(append([]byte{}, wire[startOf(ends, i):startOf(ends, i)+k]...))
			if _, pan, _ := safely(func() error { return DecodeAny(obj, part) }); pan != nil {
				return failf(sig+"/panic", "item %d: Decode panicked on the first %d bytes of the message: %v", i, k, pan)
			}
		}
		err, pan, _ := safely(func() error { return DecodeAny(obj, buf) })
		if pan != nil {
			return failf(sig+"/panic", "item %d: Decode panicked: %v", i, pan)
		}
		if err != nil {
			return failf(sig+"/rejected", "item %d of %d: Decode rejected a valid message followed by %d further bytes: %v", i, len(c.Items), len(wire)-ends[i], err)
		}
		if rest := buf.Bytes(); !bytes.Equal(rest, wire[ends[i]:]) {
			return failf(sig+"/consumed", "item %d of %d (%d bytes): Decode left %d bytes, exactly %d must remain untouched", i, len(c.Items), ends[i]-startOf(ends, i), len(rest), len(wire)-ends[i])
		}
		got, cerr := FromStruct(obj, v.Type)
		if cerr != nil {
			return failf(sig+"/value", "item %d: %v", i, cerr)
		}
		want := Computed(v)
		if c.Loose {
			pv, n, perr := Parse(v.Type, wire[startOf(ends, i):ends[i]])
			if perr != nil || n != ends[i]-startOf(ends, i) {
				continue // the encoder's bytes are not what the schema says (C02's business); consumption was still judged above
			}
			want = pv
		}
		if d := Diff(got, want); d != "" {
			return failf(sig+"/value", "item %d of %d decoded differently when followed by other bytes: %s", i, len(c.Items), d)
		}
	}
	if !bytes.Equal(buf.Bytes(), c.Tail) {
		return failf("C07/stream/end", "after %d decodes %d bytes remain, expected the %d-byte tail", len(c.Items), buf.Len(), len(c.Tail))
	}
	return nil
}

func startOf(ends []int, i int) int {
	if i == 0 {
		return 0
	}
	return ends[i-1]
}

type CaseCut struct {
	Type     string      `json:"type"`
	V        *Value      `json:"v"`
	Cuts     []int       `json:"cuts,omitempty"`      // empty: every cut position 0..len-1
	Prior    *Value      `json:"prior,omitempty"`     // if set: the receiver has decoded this other message before it is given the prefix
	Pre      []PreOp     `json:"pre,omitempty"`       // prior calls / process-wide settings
	PriorCut int         `json:"prior_cut,omitempty"` // if > 0: the receiver was offered only the first PriorCut mod len bytes of Prior's encoding (an abandoned partial message)
	Shape    string      `json:"shape,omitempty"`     // how the prefix sits in memory: "" exactly sized; "subslice": a slice of a larger receive array whose capacity still covers the rest of the message; "stale": a buffer that held the whole message before, was reset and now holds the prefix
	Sweep    bool        `json:"sweep,omitempty"`     // one receiver object is offered all the prefixes in turn (a receive loop retrying as more data arrives) instead of a fresh one per prefix
	Big      *CaseC18Msg `json:"big,omitempty"`       // if set (and V is not): the value is the type's skeleton with one prefixed field at exactly its prefix maximum
}

func oracleC11(c *CaseCut) *Failure {
	defer runPrelude(c.Pre)()
	if c.V == nil && c.Big != nil {
		c.V, _, _ = c18Build(c.Big)
		defer func() { c.V = nil }()
	}
	if c.V == nil {
		Col.BrokenHarness("C11 case without a value")
		return nil
	}
	enc, _, err, pan := LibEncode(c.V)
	if err != nil || pan != nil {
		return failf("C11/"+c.Type+"/encode", "canonical value not encodable: err=%v panic=%v", err, pan)
	}
	cuts := c.Cuts
	if len(cuts) == 0 {
		cuts = make([]int, len(enc))
		for i := range cuts {
			cuts[i] = i
		}
	}
	var priorEnc []byte
	if c.Prior != nil {
		priorEnc = Render(c.Prior, nil).Bytes
	}
	newReceiver := func() any {
		obj := regByName[c.Type].New()
		if priorEnc != nil {
			pe := priorEnc
			if c.PriorCut > 0 && len(pe) > 0 {
				pe = pe[:c.PriorCut%len(pe)]
			}
			_, _, _ = safely(func() error { return DecodeAny(obj, bytes.NewBuffer(append([]byte{}, pe...))) })
		}
		return obj
	}
	var swept any
	if c.Sweep {
		swept = newReceiver()
	}
	for _, k := range cuts {
		if k < 0 || k >= len(enc) {
			continue
		}
		var buf *bytes.Buffer
		switch c.Shape {
		case "subslice":
			whole := append([]byte{}, enc...)
			buf = bytes.NewBuffer(whole[:k])
		case "stale":
			buf = &bytes.Buffer{}
			buf.Write(enc)
			buf.Reset()
			buf.Write(enc[:k])
		default:
			buf = bytes.NewBuffer(enc[:k:k])
		}
		fresh := swept
		if !c.Sweep {
			fresh = newReceiver()
		}
		err, pan, _ := safely(func() error { return DecodeAny(fresh, buf) })
		if pan != nil {
			return failf("C11/"+c.Type+"/panic", "Decode panicked on the first %d of %d bytes: %v", k, len(enc), pan)
		}
		if err == nil {
			used := ""
			if c.Prior != nil {
				used = " into a receiver that had decoded another message before"
			}
			if c.Sweep {
				used += " (one receiver offered the growing prefixes in turn)"
			}
			if c.Shape != "" {
				used += " [buffer shape: " + c.Shape + "]"
			}
			return failf("C11/"+c.Type+"/accepted-prefix", "Decode reported success on the first %d of %d bytes of a valid encoding%s (%s)", k, len(enc), used, spanAt(c.V, k))
		}
	}
	return nil
}

func init() {
	registerReplay("c07", oracleC07)
	registerReplay("c11", oracleC11)
}

func hasVariableParts(tn string) bool {
	for _, f := range Types[tn].Fields {
		switch f.Kind {
		case "numlist", "fixtextlist", "textlist", "objlist", "obj", "objval", "dyn":
			return true
		}
	}
	return false
}

func frameOf(module string) string {
	return map[string]string{"sse": "sse.SseBinary", "szse": "szse.SzseBinary", "bjse": "bjse.BjseBinary", "risk": "risk.RcBinary", "sample": "sample.RootPacket"}[module]
}

func TestC07(t *testing.T) {
	Col.Property = "C07"
	ReplayRegress(t, "C07")
	if Thorough() {
		// giants: a frame with 1.5 million / 2^22+3 list entries followed by an ordinary frame
		t.Run("giant-streams", func(t *testing.T) {
			i := 0
			for _, g := range giantFrames() {
				i++
				if !MyShare(i) {
					continue
				}
				c := &CaseStream{Items: []*Value{g, Skeleton("szse.SzseBinary", 0)}, Tail: HexBytes{1, 2, 3}}
				Col.Case(Hash64([]byte("giant"), []byte(fmt.Sprint(i))), true, "giant-frame-in-stream(>16MiB)")
				Direct(t, "C07", "c07", fmt.Sprintf("giant/%d", i), c, oracleC07)
			}
		})
	}
	RunProps(t, rpC07(MyTypes(), false))
}

func rpC07(types []string, all bool) (out []RProp) {
	smallOpts := func() GenOpts {
		o := DefaultOpts(Canonical)
		o.BigProb, o.MaxList = 60, 3000
		return o
	}
	// (i) every type: one message followed by an arbitrary tail
	for _, tn := range types {
		tn := tn
		out = append(out, MkProp("C07", "c07", tn, func(rt *rapid.T) *CaseStream {
			v, _ := GenValue(rt, tn, smallOpts())
			c := &CaseStream{Items: []*Value{v}}
			if rapid.IntRange(0, 3).Draw(rt, "loose") == 0 {
				// any encodable value, not only canonical ones: over-long text (cut by the writer), text made of pad bytes ...
				lo := smallOpts()
				lo.Mode, lo.NoAbsent = Arbitrary, true
				lv, _ := GenValue(rt, tn, lo)
				if r := Render(lv, nil); !r.MustError && !r.MayError {
					c.Items, c.Loose = []*Value{lv}, true
					v = lv
					Col.Class("arbitrary(non-canonical)-value+tail", 1)
				}
			}
			switch rapid.IntRange(0, 5).Draw(rt, "tailkind") {
			case 5: // a long tail: the unread total is near a multiple of 64 KiB (lengths compared in narrow arithmetic)
				el := len(Render(v, nil).Bytes)
				k := rapid.IntRange(1, 3).Draw(rt, "tailk")
				l := 65536*k - el + rapid.IntRange(0, el+8).Draw(rt, "taild")
				c.Tail = expandBytes(max(1, l), rapid.Uint64().Draw(rt, "tailsalt"))
			case 0: // no tail
			case 1: // looks like the start of another message of the same type
				o, _ := GenValue(rt, tn, smallOpts())
				b := Render(o, nil).Bytes
				c.Tail = b[:rapid.IntRange(0, len(b)).Draw(rt, "tailcut")]
			default:
				c.Tail = rapid.SliceOfN(rapid.Byte(), 1, 64).Draw(rt, "tail")
			}
			size := len(Render(v, nil).Bytes)
			nt := len(c.Tail) > 0 && size > 0
			cls := []string{"single+tail"}
			if size == 0 {
				cls = append(cls, "zero-length-type")
			}
			if len(c.Tail) > 0 {
				cls = append(cls, "tail-nonempty")
			}
			Col.Case(Hash64(JSONOf(c)), nt, cls...)
			Col.Program(tn)
			if len(c.Tail) > 60000 {
				cls = append(cls, "tail>60KB")
			}
			if nt && Col.WantSample("single+tail") && size < 200 && len(c.Tail) < 200 {
				Col.Sample("single+tail", c)
			}
			return c
		}, oracleC07))
	}
	// (i-b) every type: a short stream of messages of that one type, decoded one after another into ONE receiver
	for _, tn := range types {
		tn := tn
		if !hasVariableParts(tn) {
			continue // a flat message has nothing a used receiver could keep (C15 covers plain field leftovers)
		}
		out = append(out, MkProp("C07", "c07", "reuse/"+tn, func(rt *rapid.T) *CaseStream {
			n := rapid.IntRange(2, 5).Draw(rt, "n")
			c := &CaseStream{Reuse: true}
			kinds := map[string]bool{}
			so := smallOpts()
			so.HugeProb, so.HugeObj = 0, 0
			for i := 0; i < n; i++ {
				v, _ := GenValue(rt, tn, so)
				c.Items = append(c.Items, v)
				if di := Types[tn].DynIndex(); di >= 0 && v.F[di].O != nil {
					kinds[v.F[di].O.Type] = true
				}
			}
			if rapid.Bool().Draw(rt, "hastail") {
				c.Tail = rapid.SliceOfN(rapid.Byte(), 1, 16).Draw(rt, "tail")
			}
			cls := []string{"same-type-stream-reused-receiver"}
			if rapid.Bool().Draw(rt, "chunked") {
				c.Chunk = rapid.SliceOfN(rapid.OneOf(rapid.Just(0), rapid.IntRange(1, 1<<20)), n, n).Draw(rt, "chunk")
				cls = append(cls, "partial-segment-attempts-between-decodes")
			}
			if len(kinds) >= 2 {
				cls = append(cls, "reused-receiver-changes-part-type")
			}
			Col.Case(Hash64(JSONOf(c)), true, cls...)
			Col.Program(tn)
			if len(kinds) >= 2 && Col.WantSample("reuse") && len(JSONOf(c)) < 4000 {
				Col.Sample("reuse", c)
			}
			return c
		}, oracleC07))
	}
	// (ii) streams of mixed frames, per protocol
	for mi, m := range ModuleIDs {
		if !all && !MyShare(mi) && EnvNShards() <= len(ModuleIDs) {
			continue
		}
		m := m
		out = append(out, MkProp("C07", "c07", "stream/"+m, func(rt *rapid.T) *CaseStream {
			n := rapid.IntRange(1, 12).Draw(rt, "n")
			if Thorough() {
				n = rapid.IntRange(1, 40).Draw(rt, "n")
			}
			c := &CaseStream{Reuse: rapid.Bool().Draw(rt, "reuse")}
			if rapid.Bool().Draw(rt, "chunked") {
				c.Chunk = rapid.SliceOfN(rapid.OneOf(rapid.Just(0), rapid.IntRange(1, 1<<20)), n, n).Draw(rt, "chunk")
			}
			kinds := map[string]bool{}
			so := smallOpts()
			so.HugeProb, so.HugeObj = 0, 0 // the remainder is compared after every decode: keep the stream's total size moderate
			for i := 0; i < n; i++ {
				v, _ := GenValue(rt, frameOf(m), so)
				c.Items = append(c.Items, v)
				if b := v.F[Types[v.Type].DynIndex()].O; b != nil {
					kinds[b.Type] = true
				}
			}
			if rapid.Bool().Draw(rt, "hastail") {
				c.Tail = rapid.SliceOfN(rapid.Byte(), 1, 16).Draw(rt, "tail")
			}
			nt := n >= 2 && len(kinds) >= 2
			cls := []string{"stream:" + m, fmt.Sprintf("stream-len:%d", min(n, 10)/5*5)}
			if rapid.IntRange(0, 2).Draw(rt, "withrefused") == 0 {
				for k := rapid.IntRange(1, 2).Draw(rt, "nrefused"); k > 0; k-- {
					if r, ok := genRefused(rt, m); ok {
						r.At = rapid.IntRange(0, n-1).Draw(rt, "refusedat")
						c.Refused = append(c.Refused, r)
					}
				}
				if len(c.Refused) > 0 {
					cls = append(cls, "sender-drops-a-refused-message-between-frames")
				}
			}
			if c.Reuse {
				cls = append(cls, "frame-stream-into-one-reused-frame-object")
			}
			if len(c.Chunk) > 0 {
				cls = append(cls, "partial-segment-attempts-between-decodes")
			}
			if nt {
				cls = append(cls, "stream>=2-mixed-bodies")
			}
			Col.Case(Hash64(JSONOf(c)), nt || len(c.Tail) > 0, cls...)
			if nt && Col.WantSample("stream") && len(JSONOf(c)) < 4000 {
				Col.Sample("stream", c)
			}
			return c
		}, oracleC07))
	}
	return
}

func TestC11(t *testing.T) {
	Col.Property = "C11"
	ReplayRegress(t, "C11")
	RunProps(t, rpC11(MyTypes()))
	t.Run("at-prefix-maximum", func(t *testing.T) {
		// every 16-bit-prefixed text / list of every type at exactly 65535 bytes / entries (a prefix of all ones),
		// at top level and nested; cuts near both ends, around the big field and at pseudo-random positions
		x := splitmix(EnvSeed() ^ 0xC11)
		for _, tn := range MyTypes() {
			ts := Types[tn]
			nkeys := 1
			if di := ts.DynIndex(); di >= 0 {
				nkeys = len(TableOf(ts, &ts.Fields[di]).Order)
			}
			seen := map[string]bool{}
			for k := 0; k < nkeys; k++ {
				var targets []c18Target
				sk := Skeleton(tn, k)
				c18Targets(sk, nil, &targets, 0)
				for _, tg := range targets {
					id := fmt.Sprint(tg.path, tg.field, tg.inner)
					if di := ts.DynIndex(); di >= 0 && sk.F[di].O != nil {
						id = sk.F[di].O.Type + id
					}
					if NSize(tg.ptype) != 2 || seen[id] || t.Failed() {
						continue
					}
					seen[id] = true
					big := &CaseC18Msg{Type: tn, Key: k, Path: tg.path, Field: tg.field, Inner: tg.inner, N: int(NMask(tg.ptype))}
					v, _, ok := c18Build(big)
					if !ok {
						continue
					}
					l := len(Render(v, nil).Bytes)
					cuts := []int{0, 1, 2, 3, l / 4, l / 2, 3 * l / 4, l - 65536, l - 65535, l - 65534, l - 200, l - 100, l - 30, l - 29, l - 28, l - 27, l - 9, l - 5, l - 4, l - 3, l - 2, l - 1}
					for j := 0; j < 24; j++ {
						x = splitmix(x)
						cuts = append(cuts, int(x%uint64(max(1, l))))
					}
					c := &CaseCut{Type: tn, Big: big, Cuts: cuts}
					Col.Case(Hash64([]byte(tn), []byte(id)), true, "field-at-its-prefix-maximum(65535)")
					Col.Class("cuts-evaluated", int64(len(cuts)))
					Col.Program(tn)
					Direct(t, "C11", "c11", "atmax/"+tn+"/"+id, c, oracleC11)
				}
			}
		}
		Col.MarkExhaustive("every 16-bit-prefixed text/list field of every type (also nested) at exactly its prefix maximum x 46 cut positions")
	})
}

func rpC11(types []string) (out []RProp) {
	for _, tn := range types {
		tn := tn
		out = append(out, MkProp("C11", "c11", tn, func(rt *rapid.T) *CaseCut {
			o := DefaultOpts(Canonical)
			o.BigProb, o.MaxList = 50, 1500
			v, _ := GenValue(rt, tn, o)
			c := &CaseCut{Type: tn, V: v}
			c.Pre, _ = genPrelude(rt, tn, false)
			if len(c.Pre) > 0 {
				Col.Class("values-after-prior-calls", 1)
			}
			if rapid.IntRange(0, 2).Draw(rt, "used") == 0 {
				po := GenOpts{Mode: Canonical, MaxList: 40}
				c.Prior, _ = GenValue(rt, tn, po)
				Col.Class("values-decoded-into-a-used-receiver", 1)
				if rapid.Bool().Draw(rt, "priorpartial") {
					c.PriorCut = rapid.IntRange(1, 1<<20).Draw(rt, "priorcut")
					Col.Class("values-decoded-into-a-receiver-that-abandoned-a-partial-message", 1)
				}
			}
			c.Shape = rapid.SampledFrom([]string{"", "", "subslice", "stale"}).Draw(rt, "shape")
			if c.Shape != "" {
				Col.Class("prefix-in-a-buffer-with-capacity-behind-it:"+c.Shape, 1)
			}
			if rapid.IntRange(0, 3).Draw(rt, "sweep") == 0 {
				c.Sweep = true
				Col.Class("one-receiver-offered-all-prefixes-in-turn", 1)
			}
			r := Render(v, &RenderOpts{Spans: true})
			n := len(r.Bytes)
			if n > 4096 {
				// all field boundaries +-1 plus 256 drawn cuts
				seen := map[int]bool{}
				for _, sp := range r.Spans {
					for _, k := range []int{sp.Off - 1, sp.Off, sp.Off + 1, sp.Off + sp.Len - 1} {
						if k >= 0 && k < n && !seen[k] && len(seen) < 3000 {
							seen[k] = true
							c.Cuts = append(c.Cuts, k)
						}
					}
				}
				for i := 0; i < 256; i++ {
					c.Cuts = append(c.Cuts, rapid.IntRange(0, n-1).Draw(rt, "cut"))
				}
			}
			// evidence: one evaluation per (value, cut); non-trivial if the cut lies inside a list/text/body
			inside := func(k int) bool {
				for _, sp := range r.Spans {
					if (sp.Kind == "elems" || sp.Kind == "text" || sp.Kind == "body") && k >= sp.Off && k < sp.Off+sp.Len {
						return true
					}
				}
				return false
			}
			cuts := c.Cuts
			if len(cuts) == 0 {
				cuts = make([]int, n)
				for i := range cuts {
					cuts[i] = i
				}
			}
			for _, k := range cuts {
				if inside(k) {
					Col.Case(Hash64([]byte(tn), r.Bytes[:k]), true, "cut-inside-list/text/body")
				} else {
					Col.Case(Hash64([]byte(tn), r.Bytes[:k]), false, "cut-in-fixed-part")
				}
			}
			if n == 0 {
				Col.Case(Hash64([]byte(tn)), false, "zero-length-encoding(no strict prefix)")
			}
			if len(c.Cuts) == 0 && n > 0 {
				Col.Class("values-with-all-cuts", 1)
			}
			Col.Program(tn)
			if n > 0 && n < 120 && Col.WantSample("value") {
				Col.Sample("value", map[string]any{"type": tn, "bytes": hexClip(r.Bytes), "cuts": "all 0.." + fmt.Sprint(n-1)})
			}
			return c
		}, oracleC11))
	}
	return
}

func init() {
	RapidProps["C07"] = func() []RProp { return rpC07(TypeNames, true) }
	RapidProps["C11"] = func() []RProp { return rpC11(TypeNames) }
}
