package harness

// C19, long histories: the registry must agree with a plain map over very long call sequences too - in particular
// sequences with far more Clear / Remove calls than any counter, generation stamp or tombstone budget of 8 or 16 bits
// could represent. One goroutine issues the calls (so the sequential order is known and the model is exact), while,
// optionally, readers run beside it and check what they can check without knowing the order: a service is never
// returned under another name.

import (
	"fmt"
	"runtime"
	"sync"
	"sync/atomic"
	"testing"

	"github.com/xinchentechnote/fin-proto-go/codec"
)

type CaseC19Long struct {
	Salt     uint64 `json:"salt"`
	Ops      int    `json:"ops"`
	Names    int    `json:"names"`
	ClearPct int    `json:"clear_pct"` // share of Clear among the calls
	Readers  int    `json:"readers"`
	Procs    int    `json:"gomaxprocs"`
}

func oracleC19Long(c *CaseC19Long) *Failure {
	saveBuiltins()
	defer restoreBuiltins()
	old := runtime.GOMAXPROCS(max(1, c.Procs))
	defer runtime.GOMAXPROCS(old)
	codec.Clear()
	names := make([]string, c.Names)
	for i := range names {
		names[i] = fmt.Sprintf("LONG%d", i)
	}
	var stop atomic.Bool
	var wg sync.WaitGroup
	var rmu sync.Mutex
	wrongName := ""
	for r := 0; r < c.Readers; r++ {
		wg.Add(1)
		go func(r int) {
			defer wg.Done()
			for k := 0; !stop.Load(); k++ {
				n := names[(r+k)%len(names)]
				if s, ok := codec.Get(n); ok {
					if ts, isTest := s.(*testSvc); !isTest || ts.name != n {
						rmu.Lock()
						wrongName = fmt.Sprintf("Get(%q) returned %T %+v", n, s, s)
						rmu.Unlock()
						return
					}
				}
				if k%64 == 0 {
					runtime.Gosched()
				}
			}
		}(r)
	}
	defer func() { stop.Store(true); wg.Wait() }()
	model := map[string]int{}
	clears, nextID := 0, 1
	// sleepers: registered once at the start and never again; only looked up
	scan := append([]string{}, names...)
	lastReg := map[string]int{}
	for i := 0; i < 3; i++ {
		n := fmt.Sprintf("SLEEPER%d", i)
		scan = append(scan, n)
		if !codec.Registry(&testSvc{name: n, id: -1 - i}) {
			return failf("C19/registry/long-history", "Registry(%q) on an empty registry returned false", n)
		}
		if s, ok := codec.Get(n); !ok || s.(*testSvc).id != -1-i {
			return failf("C19/registry/long-history", "Get(%q) right after its registration: %v %v", n, s, ok)
		}
	}
	x := c.Salt
	for i := 0; i < c.Ops; i++ {
		x = splitmix(x)
		n := names[int(x>>8)%len(names)]
		kind := int(x>>40) % 100
		switch {
		case kind < c.ClearPct:
			codec.Clear()
			clears++
			for k := range model {
				delete(model, k)
			}
			// full scan after every Clear: nothing may be left, however long ago (and under whatever earlier
			// state of the registry) a name was registered
			for _, nm := range scan {
				if s, ok := codec.Get(nm); ok || s != nil {
					return failf("C19/registry/long-history", "call %d: right after Clear number %d, Get(%q) still finds %+v (registered at call %d)", i, clears, nm, s, lastReg[nm])
				}
			}
		case kind < c.ClearPct+(100-c.ClearPct)/4:
			codec.Remove(n)
			delete(model, n)
		case kind < c.ClearPct+(100-c.ClearPct)/2:
			_, present := model[n]
			ok := codec.Registry(&testSvc{name: n, id: nextID})
			if ok == present {
				return failf("C19/registry/long-history", "call %d (after %d Clear calls): Registry(%q) returned %v although the name was %s", i, clears, n, ok, map[bool]string{true: "registered", false: "not registered"}[present])
			}
			if !present {
				model[n] = nextID
				lastReg[n] = i
			}
			nextID++
		default:
			want, present := model[n]
			s, ok := codec.Get(n)
			if ok != present {
				return failf("C19/registry/long-history", "call %d (after %d Clear calls): Get(%q) found=%v although the name was %s", i, clears, n, ok, map[bool]string{true: "registered", false: "not registered"}[present])
			}
			if ok {
				ts, isTest := s.(*testSvc)
				if !isTest || ts.name != n || ts.id != want {
					return failf("C19/registry/long-history", "call %d (after %d Clear calls): Get(%q) returned another service than the one registered last (%+v, want id %d)", i, clears, n, s, want)
				}
			}
		}
	}
	rmu.Lock()
	defer rmu.Unlock()
	if wrongName != "" {
		return failf("C19/registry/wrong-service", "long history with %d readers: %s", c.Readers, wrongName)
	}
	return nil
}

func init() { registerReplay("c19long", oracleC19Long) }

func runC19Long(t *testing.T) {
	ops := 400000
	if Thorough() {
		ops = 4000000
	}
	x := splitmix(EnvSeed() ^ 0xC19)
	cfgs := []CaseC19Long{
		{Names: 3, ClearPct: 50, Readers: 0, Procs: 2}, // > 65536 Clear calls, some with nothing registered in between
		{Names: 2, ClearPct: 90, Readers: 0, Procs: 2},
		{Names: 5, ClearPct: 34, Readers: 2, Procs: 4},
		{Names: 70, ClearPct: 5, Readers: 0, Procs: 2}, // many names: growth / sweeping thresholds
		{Names: 3, ClearPct: 0, Readers: 1, Procs: 2},  // Remove-only churn
	}
	for i := range cfgs {
		if !MyShare(i) {
			continue
		}
		c := cfgs[i]
		x = splitmix(x + uint64(i))
		c.Salt, c.Ops = x, ops
		Col.Case(Hash64(JSONOf(&c)), true, "long-sequential-history-vs-map-model")
		Col.Class("long-history-calls", int64(c.Ops))
		if Col.WantSample("long") {
			Col.Sample("long", &c)
		}
		Direct(t, "C19", "c19long", fmt.Sprintf("long/%d", i), &c, oracleC19Long)
	}
}
