package harness

// C13 — fixed-width text: exactly N bytes; pad or cut on write, strip only pad on read.

import (
	"bytes"
	"fmt"
	"testing"

	"github.com/xinchentechnote/fin-proto-go/codec"
	"pgregory.net/rapid"
)

type CaseC13 struct {
	Variant string     `json:"variant"` // scalar | list
	N       int        `json:"n"`
	Pad     int        `json:"pad"`
	Left    bool       `json:"left"`
	S       HexBytes   `json:"s"`               // value to write (scalar)
	W       HexBytes   `json:"w"`               // raw field bytes to read (scalar), len == N
	L       []HexBytes `json:"l,omitempty"`     // values to write (list)
	WL      []HexBytes `json:"wl,omitempty"`    // raw element fields to read (list)
	Count   string     `json:"count,omitempty"` // uint8|uint16|uint32 (list)
	LE      bool       `json:"le,omitempty"`
	Prior   HexBytes   `json:"prior,omitempty"` // bytes already in the output buffer
	// output buffer shape for the write side: pre-sized to Cap, Fill bytes of 0xEE written, Fill-Keep of them read
	// away (so the buffer may recycle its own storage, which still holds old bytes, when the field is written)
	Cap  int      `json:"cap,omitempty"`
	Fill int      `json:"fill,omitempty"`
	Keep int      `json:"keep,omitempty"`
	Tail HexBytes `json:"tail,omitempty"` // bytes after the field on the read side
}

func strs(l []HexBytes) []string {
	out := make([]string, len(l))
	for i, x := range l {
		out[i] = string(x)
	}
	return out
}

func c13WriteList(c *CaseC13, buf *bytes.Buffer, vals []string, defaultVariant bool) error {
	pad := rune(c.Pad)
	switch {
	case defaultVariant && !c.LE:
		switch c.Count {
		case "uint8":
			return codec.WriteFixedStringList[uint8](buf, vals, c.N)
		case "uint16":
			return codec.WriteFixedStringList[uint16](buf, vals, c.N)
		default:
			return codec.WriteFixedStringList[uint32](buf, vals, c.N)
		}
	case defaultVariant && c.LE:
		switch c.Count {
		case "uint8":
			return codec.WriteFixedStringListLE[uint8](buf, vals, c.N)
		case "uint16":
			return codec.WriteFixedStringListLE[uint16](buf, vals, c.N)
		default:
			return codec.WriteFixedStringListLE[uint32](buf, vals, c.N)
		}
	case !c.LE:
		switch c.Count {
		case "uint8":
			return codec.WriteFixedStringListWithPadding[uint8](buf, vals, c.N, pad, c.Left)
		case "uint16":
			return codec.WriteFixedStringListWithPadding[uint16](buf, vals, c.N, pad, c.Left)
		default:
			return codec.WriteFixedStringListWithPadding[uint32](buf, vals, c.N, pad, c.Left)
		}
	default:
		switch c.Count {
		case "uint8":
			return codec.WriteFixedStringListWithPaddingLE[uint8](buf, vals, c.N, pad, c.Left)
		case "uint16":
			return codec.WriteFixedStringListWithPaddingLE[uint16](buf, vals, c.N, pad, c.Left)
		default:
			return codec.WriteFixedStringListWithPaddingLE[uint32](buf, vals, c.N, pad, c.Left)
		}
	}
}

func c13ReadList(c *CaseC13, buf *bytes.Buffer, defaultVariant bool) ([]string, error) {
	pad := rune(c.Pad)
	switch {
	case defaultVariant && !c.LE:
		switch c.Count {
		case "uint8":
			return codec.ReadFixedStringList[uint8](buf, c.N)
		case "uint16":
			return codec.ReadFixedStringList[uint16](buf, c.N)
		default:
			return codec.ReadFixedStringList[uint32](buf, c.N)
		}
	case defaultVariant && c.LE:
		switch c.Count {
		case "uint8":
			return codec.ReadFixedStringListLE[uint8](buf, c.N)
		case "uint16":
			return codec.ReadFixedStringListLE[uint16](buf, c.N)
		default:
			return codec.ReadFixedStringListLE[uint32](buf, c.N)
		}
	case !c.LE:
		switch c.Count {
		case "uint8":
			return codec.ReadFixedStringListTrimPadding[uint8](buf, c.N, pad, c.Left)
		case "uint16":
			return codec.ReadFixedStringListTrimPadding[uint16](buf, c.N, pad, c.Left)
		default:
			return codec.ReadFixedStringListTrimPadding[uint32](buf, c.N, pad, c.Left)
		}
	default:
		switch c.Count {
		case "uint8":
			return codec.ReadFixedStringListTrimPaddingLE[uint8](buf, c.N, pad, c.Left)
		case "uint16":
			return codec.ReadFixedStringListTrimPaddingLE[uint16](buf, c.N, pad, c.Left)
		default:
			return codec.ReadFixedStringListTrimPaddingLE[uint32](buf, c.N, pad, c.Left)
		}
	}
}

// c13OutBuffer builds the output buffer of the write side and returns it with its current unread content.
func c13OutBuffer(c *CaseC13) (*bytes.Buffer, []byte) {
	if c.Cap > 0 {
		buf := bytes.NewBuffer(make([]byte, 0, c.Cap))
		buf.Write(bytes.Repeat([]byte{0xEE}, c.Fill))
		buf.Next(max(0, c.Fill-c.Keep))
		buf.Write(c.Prior)
		return buf, append([]byte{}, buf.Bytes()...)
	}
	return bytes.NewBuffer(append([]byte{}, c.Prior...)), append([]byte{}, c.Prior...)
}

func oracleC13(c *CaseC13) *Failure {
	pad := byte(c.Pad)
	isDefault := c.Pad == ' ' && !c.Left
	side := "right"
	if c.Left {
		side = "left"
	}
	sigPad := "pad<0x80"
	if c.Pad >= 0x80 {
		sigPad = "pad>=0x80"
	}
	if c.Variant == "scalar" {
		variants := []bool{false}
		if isDefault {
			variants = append(variants, true)
		}
		for _, dv := range variants {
			name := "WriteFixedStringWithPadding"
			if dv {
				name = "WriteFixedString"
			}
			// write side
			buf, prior := c13OutBuffer(c)
			err, p, _ := safely(func() error {
				if dv {
					return codec.WriteFixedString(buf, string(c.S), c.N)
				}
				return codec.WriteFixedStringWithPadding(buf, string(c.S), c.N, rune(c.Pad), c.Left)
			})
			if p != nil {
				return failf("C13/"+name+"/panic", "panicked: %v", p)
			}
			if err != nil {
				return failf("C13/"+name+"/error", "returned error %v", err)
			}
			out := buf.Bytes()
			if len(out) < len(prior) || !bytes.Equal(out[:len(prior)], prior) {
				return failf("C13/"+name+"/clobber", "bytes already in the buffer changed")
			}
			got := out[len(prior):]
			want := refFixedWrite(c.S, c.N, pad, c.Left)
			if !bytes.Equal(got, want) {
				return failf("C13/"+name+"/bytes", "N=%d pad=%#x %s s=%q: wrote %q (%d bytes), reference %q", c.N, c.Pad, side, clip(c.S), clip(got), len(got), clip(want))
			}
			// read side
			rname := "ReadFixedStringTrimPadding"
			if dv {
				rname = "ReadFixedString"
			}
			rb := bytes.NewBuffer(append(append([]byte{}, c.W...), c.Tail...))
			var s string
			err, p, _ = safely(func() error {
				var e error
				if dv {
					s, e = codec.ReadFixedString(rb, c.N)
				} else {
					s, e = codec.ReadFixedStringTrimPadding(rb, c.N, rune(c.Pad), c.Left)
				}
				return e
			})
			if p != nil {
				return failf("C13/"+rname+"/panic", "panicked: %v", p)
			}
			if err != nil {
				return failf("C13/"+rname+"/error", "returned error %v on a complete field", err)
			}
			wantS := refFixedRead(c.W, pad, c.Left)
			if s != string(wantS) {
				return failf("C13/"+rname+"/"+sigPad, "N=%d pad=%#x %s field=%q: read %q, reference %q", c.N, c.Pad, side, clip(c.W), clip([]byte(s)), clip(wantS))
			}
			if !bytes.Equal(rb.Bytes(), c.Tail) {
				return failf("C13/"+rname+"/consumed", "did not consume exactly %d bytes", c.N)
			}
		}
		return nil
	}
	// list variants
	variants := []bool{false}
	if isDefault {
		variants = append(variants, true)
	}
	csize := NSize(c.Count)
	for _, dv := range variants {
		name := fmt.Sprintf("FixedStringList(default=%v,LE=%v)", dv, c.LE)
		buf, prior := c13OutBuffer(c)
		err, p, _ := safely(func() error { return c13WriteList(c, buf, strs(c.L), dv) })
		if p != nil {
			return failf("C13/Write"+name+"/panic", "panicked: %v", p)
		}
		if err != nil {
			return failf("C13/Write"+name+"/error", "returned error %v", err)
		}
		want := putUint(nil, uint64(len(c.L)), csize, c.LE)
		for _, e := range c.L {
			want = append(want, refFixedWrite(e, c.N, pad, c.Left)...)
		}
		out := buf.Bytes()
		if len(out) < len(prior) || !bytes.Equal(out[:len(prior)], prior) {
			return failf("C13/Write"+name+"/clobber", "bytes already in the buffer changed")
		}
		if got := out[len(prior):]; !bytes.Equal(got, want) {
			return failf("C13/Write"+name+"/bytes", "N=%d pad=%#x %s count=%s %d elements: wrote %s, reference %s", c.N, c.Pad, side, c.Count, len(c.L), hexClip(got), hexClip(want))
		}
		wire := putUint(nil, uint64(len(c.WL)), csize, c.LE)
		for _, e := range c.WL {
			wire = append(wire, e...)
		}
		rb := bytes.NewBuffer(append(wire, c.Tail...))
		var got []string
		err, p, _ = safely(func() error {
			var e error
			got, e = c13ReadList(c, rb, dv)
			return e
		})
		if p != nil {
			return failf("C13/Read"+name+"/panic", "panicked: %v", p)
		}
		if err != nil {
			return failf("C13/Read"+name+"/error", "returned error %v on a complete list", err)
		}
		if len(got) != len(c.WL) {
			return failf("C13/Read"+name+"/count", "read %d elements, wire has %d", len(got), len(c.WL))
		}
		for i, e := range c.WL {
			if w := refFixedRead(e, pad, c.Left); got[i] != string(w) {
				return failf("C13/Read"+name+"/"+sigPad, "element %d field=%q: read %q, reference %q", i, clip(e), clip([]byte(got[i])), clip(w))
			}
		}
		if !bytes.Equal(rb.Bytes(), c.Tail) {
			return failf("C13/Read"+name+"/consumed", "list reader did not consume exactly its bytes")
		}
	}
	return nil
}

func init() { registerReplay("c13", oracleC13) }

// text around a width: shorter, equal, longer, much longer; bytes biased to the pad byte and to troublemakers.
func genTextAround(rt *rapid.T, label string, n int, pad byte) []byte {
	var l int
	switch rapid.IntRange(0, 6).Draw(rt, label+".lenclass") {
	case 0:
		l = 0
	case 1:
		l = n
	case 2:
		l = max(0, n-1)
	case 3:
		l = n + 1
	case 4:
		l = rapid.IntRange(0, n).Draw(rt, label+".len")
	case 5:
		l = rapid.IntRange(n, 3*n+2).Draw(rt, label+".len")
	default:
		l = rapid.IntRange(0, 2*n+8).Draw(rt, label+".len")
	}
	return genBytesBiased(rt, label, l, pad)
}

var utf8Bits = [][]byte{[]byte("é"), []byte("中"), []byte("\xe9"), []byte("\xc3"), []byte("\xf0\x9f\x98\x80"), {0xc2, 0x80}, {0xef, 0xbf, 0xbd},
	[]byte("\u3000"), []byte("\u3000"), []byte("\u00a0"), []byte("\u2003"), []byte("\ufeff"), []byte("\u200b"), []byte("e\u0301"), []byte("\u2028")}

func genBytesBiased(rt *rapid.T, label string, l int, pad byte) []byte {
	dictOdds := 13
	if len(Dict.Novel) > 0 {
		dictOdds = 4 // the tree under test has constants the pinned tree does not: try them often
	}
	if l > 0 && rapid.IntRange(0, dictOdds).Draw(rt, label+".dict") == dictOdds {
		// a constant harvested from the source of the tree under test, fitted to the length
		if w, ok := dictWord(rt, label); ok {
			if len(w) >= l {
				return append([]byte{}, w[:l]...)
			}
			fill := bytes.Repeat([]byte{pad}, l-len(w))
			if rapid.Bool().Draw(rt, label+".dictside") {
				return append(append([]byte{}, w...), fill...)
			}
			return append(fill, w...)
		}
	}
	out := make([]byte, 0, l)
	mode := rapid.IntRange(0, 6).Draw(rt, label+".mode")
	if mode == 0 { // all pad
		return bytes.Repeat([]byte{pad}, l)
	}
	if mode == 6 && l >= 2 { // runs of the pad byte at either end, data in between
		a := rapid.IntRange(0, l-1).Draw(rt, label+".runa")
		b := rapid.IntRange(0, l-1-a).Draw(rt, label+".runb")
		mid := l - a - b
		out := bytes.Repeat([]byte{pad}, a)
		for i := 0; i < mid; i++ {
			out = append(out, rapid.SampledFrom([]byte{'1', '2', 'A', 'x', 0x80, pad ^ 1, '5'}).Draw(rt, label+".mid"))
		}
		return append(out, bytes.Repeat([]byte{pad}, b)...)
	}
	bg := rapid.OneOf(
		rapid.SampledFrom([]byte{pad, pad, ' ', '0', 0, 'A', 'z', 0x80, 0xFF, 0xC3, 0xA9, 0xE9, '\t', '\n', '\r', 0x0b, 0x0c, 0x85, 0xA0, 0x7f, 0x1f, '-', '-', '+', '.', ',', '0', '1', '9'}),
		rapid.Byte(),
	)
	for len(out) < l {
		if mode == 5 && rapid.IntRange(0, 3).Draw(rt, label+".utf") == 0 {
			out = append(out, rapid.SampledFrom(utf8Bits).Draw(rt, label+".rune")...)
			continue
		}
		out = append(out, bg.Draw(rt, label+".b"))
	}
	return out[:l]
}

func genC13(rt *rapid.T) *CaseC13 {
	c := &CaseC13{}
	c.N = rapid.OneOf(rapid.SampledFrom([]int{0, 1, 2, 3, 8, 10, 16}), rapid.IntRange(0, 40), rapid.IntRange(0, 300)).Draw(rt, "N")
	c.Pad = int(rapid.OneOf(rapid.SampledFrom([]byte{' ', '0', 0, 0x80, 0xFF, 0xE9, 0xC3, 0xA9, 0x7F}), rapid.Byte()).Draw(rt, "pad"))
	c.Left = rapid.Bool().Draw(rt, "left")
	if rapid.IntRange(0, 4).Draw(rt, "prior") == 0 {
		c.Prior = rapid.SliceOfN(rapid.Byte(), 1, 9).Draw(rt, "priorBytes")
	}
	if rapid.IntRange(0, 4).Draw(rt, "shape") == 0 {
		// recycled buffer: little room at the end, most of the content already read
		c.Cap = rapid.SampledFrom([]int{64, 256, 1024, 4096}).Draw(rt, "cap")
		c.Keep = rapid.SampledFrom([]int{0, 1, 5}).Draw(rt, "keep")
		c.Fill = c.Cap - rapid.IntRange(0, min(c.Cap/2-8, 2*c.N+8)).Draw(rt, "room")
	}
	if rapid.IntRange(0, 2).Draw(rt, "tail") == 0 {
		c.Tail = rapid.SliceOfN(rapid.Byte(), 1, 9).Draw(rt, "tailBytes")
		if rapid.Bool().Draw(rt, "tailpad") {
			c.Tail[0] = byte(c.Pad)
		}
	}
	if rapid.IntRange(0, 3).Draw(rt, "variant") > 0 {
		c.Variant = "scalar"
		c.S = genTextAround(rt, "s", c.N, byte(c.Pad))
		c.W = genBytesBiased(rt, "w", c.N, byte(c.Pad))
	} else {
		c.Variant = "list"
		c.Count = rapid.SampledFrom([]string{"uint8", "uint16", "uint32"}).Draw(rt, "count")
		c.LE = rapid.Bool().Draw(rt, "le")
		k := rapid.OneOf(rapid.IntRange(0, 4), rapid.IntRange(0, 40)).Draw(rt, "k")
		if c.N > 64 {
			k = min(k, 6)
		}
		c.L, c.WL = []HexBytes{}, []HexBytes{}
		for i := 0; i < k; i++ {
			c.L = append(c.L, genTextAround(rt, "l", c.N, byte(c.Pad)))
			c.WL = append(c.WL, genBytesBiased(rt, "wl", c.N, byte(c.Pad)))
		}
	}
	// classification
	nt := false
	cls := []string{"variant:" + c.Variant}
	each := func(s []byte) {
		if len(s) != c.N {
			nt = true
		}
		if bytes.IndexByte(s, byte(c.Pad)) >= 0 {
			nt = true
		}
		switch {
		case len(s) < c.N:
			cls = append(cls, "shorter")
		case len(s) == c.N:
			cls = append(cls, "exact")
		default:
			cls = append(cls, "longer")
		}
	}
	if c.Variant == "scalar" {
		each(c.S)
		if bytes.IndexByte(c.W, byte(c.Pad)) >= 0 {
			nt = true
			cls = append(cls, "wire-has-pad")
		}
		if len(c.W) > 0 && bytes.Count(c.W, []byte{byte(c.Pad)}) == len(c.W) {
			cls = append(cls, "wire-all-pad")
		}
	} else {
		for _, s := range c.L {
			each(s)
		}
		cls = append(cls, fmt.Sprintf("count:%s", c.Count))
	}
	if c.Pad >= 0x80 {
		cls = append(cls, "pad>=0x80")
	}
	if c.Left {
		cls = append(cls, "pad-left")
	} else {
		cls = append(cls, "pad-right")
	}
	if c.N == 0 {
		cls = append(cls, "N=0")
	}
	if c.Cap > 0 {
		cls = append(cls, "recycled-output-buffer")
	}
	Col.Case(Hash64(JSONOf(c)), nt, cls...)
	if Col.WantSample(c.Variant) {
		Col.Sample(c.Variant, c)
	}
	return c
}

func TestC13(t *testing.T) {
	Col.Property = "C13"
	ReplayRegress(t, "C13")
	// every pad byte x both sides on a few fixed shapes (enumerated in every run)
	t.Run("allpads", func(t *testing.T) {
		n := 0
		for pad := 0; pad < 256; pad++ {
			if !MyShare(pad) {
				continue
			}
			for _, left := range []bool{false, true} {
				p := byte(pad)
				shapes := []struct{ s, w []byte }{
					{[]byte("ab"), []byte{'a', 'b', p, p, p}},
					{[]byte{}, []byte{p, p, p, p, p}},
					{[]byte{p, 'x', p}, []byte{p, p, 'x', p, p}},
					{[]byte("a\xc3\xa9"), []byte{p, 'a', 0xc3, 0xa9, p}},
					{[]byte("toolongvalue"), []byte{'a', p, 'b', p, 'c'}},
				}
				for _, sh := range shapes {
					c := &CaseC13{Variant: "scalar", N: 5, Pad: pad, Left: left, S: sh.s, W: sh.w}
					Col.Case(Hash64(JSONOf(c)), true, "allpads")
					n++
					if !Direct(t, "C13", "c13", fmt.Sprintf("allpads/%d/%v", pad, left), c, oracleC13) {
						return
					}
				}
			}
		}
		Col.MarkExhaustive("all 256 pad bytes x both sides x 5 fixed shapes at N=5")
	})
	RunProps(t, rpC13())
	n := 250
	if Thorough() {
		n = 2500
	}
	WithChecks(n, func() { RunProps(t, rpC13Msg(MyTypes())) })
	t.Run("volume", func(t *testing.T) { runVolume(t, "C13") })
}

func rpC13() []RProp { return []RProp{MkProp("C13", "c13", "random", genC13, oracleC13)} }

func init() { RapidProps["C13"] = rpC13 }
