package harness

// C01 — Encode then Decode returns the same message, for every message type.

import (
	"fmt"
	"testing"

	"pgregory.net/rapid"
)

type CaseValue struct {
	Type  string  `json:"type"`
	V     *Value  `json:"v"`
	Pre   []PreOp `json:"pre,omitempty"`   // prior calls in the same process
	Prior *Value  `json:"prior,omitempty"` // if set: the receiver has decoded this other message of the type before (a reused message object)
}

func oracleC01(c *CaseValue) *Failure {
	defer runPrelude(c.Pre)()
	v := c.V
	r := Render(v, nil)
	if r.MustError || r.MayError {
		Col.BrokenHarness("C01 generator produced a non-canonical value: " + r.Why)
		return nil
	}
	want := Computed(v)
	if pv, n, err := Parse(c.Type, r.Bytes); err != nil || n != len(r.Bytes) || Diff(pv, want) != "" {
		Col.BrokenHarness(fmt.Sprintf("interpreter self-check failed for %s: err=%v n=%d/%d diff=%s", c.Type, err, n, len(r.Bytes), Diff(pv, want)))
		return nil
	}
	out, _, err, pan := LibEncode(v)
	if pan != nil {
		return failf("C01/"+c.Type+"/encode-panic", "Encode panicked on a canonical value: %v", pan)
	}
	if err != nil {
		return failf("C01/"+c.Type+"/encode-error", "Encode refused a canonical value: %v", err)
	}
	dec, _, err, pan := LibDecodeInto(UsedReceiver(c.Type, c.Prior), c.Type, out)
	if pan != nil {
		return failf("C01/"+c.Type+"/decode-panic", "Decode panicked on the library's own encoding: %v", pan)
	}
	if err != nil {
		return failf("C01/"+c.Type+"/decode-error", "Decode rejected the library's own encoding (%d bytes): %v", len(out), err)
	}
	if d := Diff(dec, want); d != "" {
		return failf("C01/"+c.Type+"/roundtrip", "decoded value differs from the original: %s", d)
	}
	return nil
}

func init() {
	registerReplay("c01", oracleC01)
	RapidProps["C01"] = func() []RProp { return rpC01(TypeNames) }
}

func c01Record(c *CaseValue, ft *Features, label string) {
	r := Render(c.V, nil)
	cls := append(ft.Classes(), label, "module:"+Types[c.Type].Module)
	Col.Case(Hash64([]byte(c.Type), r.Bytes), ft.NontrivialC01(), cls...)
	Col.Program(c.Type)
	if Col.WantSample(label) && len(r.Bytes) < 400 {
		Col.Sample(label, map[string]any{"type": c.Type, "value": c.V, "bytes": hexClip(r.Bytes)})
	}
}

func TestC01(t *testing.T) {
	Col.Property = "C01"
	ReplayRegress(t, "C01")
	// every registered key of every table once, with a canonical body (exhaustive on keys)
	t.Run("allkeys", func(t *testing.T) {
		nk := 0
		for ti, tb := range TableList {
			if !MyShare(ti) {
				continue
			}
			holder := holderOf(tb)
			for ki, key := range tb.Order {
				o := DefaultOpts(Canonical)
				o.ForceKey = key
				o.BigProb = 0
				var ft *Features
				g := rapid.Custom(func(rt *rapid.T) *Value {
					rapid.Bool().Draw(rt, "_")
					v, f := GenValue(rt, holder, o)
					ft = f
					return v
				})
				v := g.Example(int(EnvSeed()%100000) + ki)
				c := &CaseValue{Type: holder, V: v}
				c01Record(c, ft, "allkeys")
				nk++
				if !Direct(t, "C01", "c01", "allkeys/"+tb.QName+"/"+key, c, oracleC01) {
					break
				}
			}
		}
		Col.MarkExhaustive("every registered key of the 18 pinned discriminator tables (226) with a canonical body")
	})
	RunProps(t, rpC01(MyTypes()))
	t.Run("volume", func(t *testing.T) { runVolume(t, "C01") })
}

func rpC01(types []string) (out []RProp) {
	for _, tn := range types {
		tn := tn
		out = append(out, MkProp("C01", "c01", tn, func(rt *rapid.T) *CaseValue {
			pre, _ := genPrelude(rt, tn, false)
			v, ft := GenValue(rt, tn, DefaultOpts(Canonical))
			c := &CaseValue{Type: tn, V: v, Pre: pre}
			if len(pre) > 0 {
				Col.Class("after-prior-calls", 1)
			}
			if hasVariableParts(tn) && rapid.IntRange(0, 3).Draw(rt, "used") == 0 {
				c.Prior, _ = GenValue(rt, tn, GenOpts{Mode: Canonical, MaxList: 40})
				Col.Class("decoded-into-a-receiver-that-held-another-message", 1)
			}
			c01Record(c, ft, "random")
			return c
		}, oracleC01))
	}
	return
}

// holderOf returns the type whose dynamic part is selected through the table.
func holderOf(tb *Table) string {
	for _, tn := range TypeNames {
		ts := Types[tn]
		if ts.Module != tb.Module {
			continue
		}
		if di := ts.DynIndex(); di >= 0 && ts.Fields[di].Table == tb.Name {
			return tn
		}
	}
	panic("no holder for table " + tb.QName)
}
