package harness

import (
	"encoding/json"
	"fmt"
	"os"
	"testing"
)

func TestMain(m *testing.M) {
	if err := LoadSchema(); err != nil {
		fmt.Fprintln(os.Stderr, "cannot load pinned schema:", err)
		os.Exit(2)
	}
	LoadDictionary()
	if out := os.Getenv("VERIF_WRITE_DICT"); out != "" {
		b, _ := json.MarshalIndent(Dict, "", " ")
		_ = os.WriteFile(out, append(b, '\n'), 0o644)
		fmt.Printf("dictionary baseline written: %d words, %d numbers, %d env names\n", len(Dict.Words), len(Dict.Numbers), len(Dict.EnvNames))
		os.Exit(0)
	}
	code := m.Run()
	Col.Flush(code)
	os.Exit(code)
}

// TestReplay re-runs the oracle of a stored case without rapid:
// VERIF_REPLAY=<file> harness.test -test.run '^TestReplay$'
func TestReplay(t *testing.T) {
	path := os.Getenv("VERIF_REPLAY")
	if path == "" {
		t.Skip("VERIF_REPLAY not set")
	}
	b, err := os.ReadFile(path)
	if err != nil {
		t.Fatal(err)
	}
	var rec struct {
		Property string          `json:"property"`
		Check    string          `json:"check"`
		Scope    string          `json:"scope"`
		Case     json.RawMessage `json:"case"`
	}
	if err := json.Unmarshal(b, &rec); err != nil {
		t.Fatal(err)
	}
	rp := Replayers[rec.Check]
	if rp == nil {
		Col.BrokenHarness("no replayer for check " + rec.Check)
		t.Fatalf("no replayer for check %q", rec.Check)
	}
	f, err := rp(rec.Case)
	if err != nil {
		Col.BrokenHarness("replay case does not parse: " + err.Error())
		t.Fatal(err)
	}
	Col.Case(Hash64(rec.Case), true, "replayed")
	if f != nil {
		var cs any
		_ = json.Unmarshal(rec.Case, &cs)
		Col.Violation(rec.Property, rec.Check, rec.Scope, f.Signature, f.Msg, "replay", cs)
		t.Fatalf("%s: %s", f.Signature, f.Msg)
	}
}
