package harness

// C12 — discriminators pick the same body type both ways; unknown ones are errors.

import (
	"bytes"
	"fmt"
	"reflect"
	"strconv"
	"testing"

	"pgregory.net/rapid"
)

type CaseC12 struct {
	Table  string `json:"table"`
	Holder string `json:"holder"`
	Key    string `json:"key"`
	Dir    string `json:"dir"` // dec | enc-absent | roundtrip
	V      *Value `json:"v"`   // holder value; its discriminator field carries Key
}

func oracleC12(c *CaseC12) *Failure {
	tb := Tables[c.Table]
	ts := Types[c.Holder]
	di := ts.DynIndex()
	f := &ts.Fields[di]
	want := tb.TypeFor(c.Key)
	sig := "C12/" + c.Table
	switch c.Dir {
	case "dec":
		// the wire carries Key in the discriminator field, followed by whatever part V holds
		w := Render(c.V, nil).Bytes
		got, _, err, pan := LibDecode(c.Holder, w)
		if pan != nil {
			return failf(sig+"/decode-panic", "key %q: Decode panicked: %v", c.Key, pan)
		}
		if want == "" {
			if err == nil {
				gt := "<nil>"
				if got != nil && got.F[di].O != nil {
					gt = got.F[di].O.Type
				}
				return failf(sig+"/decode-unregistered-accepted", "unregistered key %q was decoded successfully (part type %s)", c.Key, gt)
			}
			return nil
		}
		if err != nil {
			return failf(sig+"/decode-registered-rejected", "registered key %q (pinned %s): Decode returned %v", c.Key, want, err)
		}
		if got.F[di].O == nil || got.F[di].O.Type != want {
			gt := "<nil>"
			if got.F[di].O != nil {
				gt = got.F[di].O.Type
			}
			return failf(sig+"/decode-wrong-type", "key %q: decoder built %s, pinned type is %s", c.Key, gt, want)
		}
	case "enc-absent":
		r := Render(c.V, nil)
		out, obj, err, pan := LibEncode(c.V)
		if pan != nil {
			return failf(sig+"/encode-panic", "key %q with absent part: Encode panicked: %v", c.Key, pan)
		}
		if f.NilEnc != "materialise" {
			return nil // the pinned encoder skips an absent part: nothing demanded beyond not panicking
		}
		if want == "" {
			if err == nil {
				return failf(sig+"/encode-unregistered-accepted", "unregistered key %q with absent part: Encode succeeded (%d bytes) instead of returning an error", c.Key, len(out))
			}
			return nil
		}
		if r.MustError {
			// the materialised zero part itself cannot be encoded (e.g. its own extension key is empty): error is the pinned outcome
			if err == nil {
				return failf(sig+"/encode-nested-unregistered-accepted", "key %q: %s, yet Encode succeeded", c.Key, r.Why)
			}
			return nil
		}
		if err != nil {
			return failf(sig+"/encode-registered-rejected", "registered key %q (pinned %s) with absent part: Encode returned %v", c.Key, want, err)
		}
		after, cerr := FromStruct(obj, c.Holder)
		if cerr != nil {
			return failf(sig+"/encode-wrong-type", "key %q: after Encode the part is not representable: %v", c.Key, cerr)
		}
		if after.F[di].O == nil || after.F[di].O.Type != want {
			gt := "<nil>"
			if after.F[di].O != nil {
				gt = after.F[di].O.Type
			}
			return failf(sig+"/encode-wrong-type", "key %q: encoder filled in %s, pinned type is %s", c.Key, gt, want)
		}
		// and the bytes are those of the pinned type's zero value
		if string(out) != string(r.Bytes) {
			return failf(sig+"/encode-bytes", "key %q: encoder wrote %d bytes, the pinned type's empty part renders to %d", c.Key, len(out), len(r.Bytes))
		}
	case "enc-absent-nested":
		// V is a FRAME whose body is the holder with key c.Key and an absent extension: the extension type must be
		// chosen by the body's own key, whatever the frame's message type says
		r := Render(c.V, nil)
		out, obj, err, pan := LibEncode(c.V)
		if pan != nil {
			return failf(sig+"/encode-panic", "key %q (holder inside its frame, extension absent): Encode panicked: %v", c.Key, pan)
		}
		if r.MustError {
			if err == nil {
				return failf(sig+"/encode-unregistered-accepted", "holder inside its frame with unregistered key %q and absent extension: Encode succeeded (%d bytes) instead of returning an error", c.Key, len(out))
			}
			return nil
		}
		if r.MayError {
			return nil
		}
		if err != nil {
			return failf(sig+"/encode-registered-rejected", "holder inside its frame with registered key %q and absent extension: Encode returned %v", c.Key, err)
		}
		fts := Types[c.V.Type]
		after, cerr := FromStruct(obj, c.V.Type)
		if cerr != nil {
			return failf(sig+"/encode-wrong-type", "key %q: %v", c.Key, cerr)
		}
		body := after.F[fts.DynIndex()].O
		if body == nil || body.Type != c.Holder || body.F[di].O == nil || body.F[di].O.Type != want {
			gt := "<nil>"
			if body != nil && body.F[di].O != nil {
				gt = body.F[di].O.Type
			}
			return failf(sig+"/encode-wrong-type", "holder inside its frame (message type %s), key %q: encoder filled in %s, pinned type is %s", KeyOf(c.V, fts, &fts.Fields[fts.DynIndex()], false), c.Key, gt, want)
		}
		if string(out) != string(r.Bytes) {
			return failf(sig+"/encode-bytes", "holder inside its frame, key %q: encoder wrote %d bytes, the schema renders %d", c.Key, len(out), len(r.Bytes))
		}
	case "roundtrip":
		out, _, err, pan := LibEncode(c.V)
		if err != nil || pan != nil {
			return failf(sig+"/roundtrip-encode", "key %q: canonical holder not encodable: err=%v panic=%v", c.Key, err, pan)
		}
		got, _, err, pan := LibDecode(c.Holder, out)
		if err != nil || pan != nil {
			return failf(sig+"/roundtrip-decode", "key %q: own encoding rejected: err=%v panic=%v", c.Key, err, pan)
		}
		if got.F[di].O == nil || got.F[di].O.Type != want {
			return failf(sig+"/roundtrip-type", "key %q: round trip produced a part of another type than %s", c.Key, want)
		}
		if d := Diff(got, Computed(c.V)); d != "" {
			return failf(sig+"/roundtrip-value", "key %q: %s", c.Key, d)
		}
	}
	return nil
}

func init() { registerReplay("c12", oracleC12) }

// holderWithKey builds a holder value whose discriminator carries key. With
// present=true it holds a canonical part of `partType` (the bytes that follow on
// the wire); otherwise the part is absent.
func holderWithKey(seed int, tb *Table, key string, present bool, partType string) *Value {
	return rapid.Custom(func(rt *rapid.T) *Value {
		rapid.Bool().Draw(rt, "_") // zero-field types draw nothing else
		return holderWithKeyRT(rt, tb, key, present, partType)
	}).Example(seed)
}

func holderWithKeyRT(rt *rapid.T, tb *Table, key string, present bool, partType string) *Value {
	holder := holderOf(tb)
	ts := Types[holder]
	o := GenOpts{Mode: Canonical, MaxList: 50, BigProb: 0, ForceKey: tb.Order[0]}
	if _, reg := tb.Entries[key]; reg {
		o.ForceKey = key
	}
	v, _ := GenValue(rt, holder, o)
	di := ts.DynIndex()
	setKey(v, ts, ts.FieldIndex(ts.Fields[di].Disc), key)
	if !present {
		v.F[di].O = nil
	} else if partType != "" && v.F[di].O.Type != partType {
		v.F[di].O, _ = GenValue(rt, partType, GenOpts{Mode: Canonical, MaxList: 50})
	}
	return v
}

func c12Record(c *CaseC12, label string) {
	reg := Tables[c.Table].TypeFor(c.Key) != ""
	cls := []string{label, "dir:" + c.Dir, "table:" + c.Table}
	if reg {
		cls = append(cls, "registered")
	} else {
		cls = append(cls, "unregistered")
	}
	Col.Case(Hash64([]byte(c.Table), []byte(c.Key), []byte(c.Dir)), true, cls...)
	Col.Program(c.Holder)
	if Col.WantSample(label + ":" + c.Dir) {
		Col.Sample(label+":"+c.Dir, map[string]any{"table": c.Table, "key": c.Key, "dir": c.Dir, "pinned": Tables[c.Table].TypeFor(c.Key)})
	}
}

func TestC12(t *testing.T) {
	Col.Property = "C12"
	ReplayRegress(t, "C12")
	seed := int(EnvSeed() % 1000003)
	t.Run("registered", func(t *testing.T) {
		for ti, tb := range TableList {
			if !MyShare(ti) {
				continue
			}
			for ki, key := range tb.Order {
				for _, dir := range []string{"dec", "enc-absent", "roundtrip"} {
					c := &CaseC12{Table: tb.QName, Holder: holderOf(tb), Key: key, Dir: dir, V: holderWithKey(seed+ki, tb, key, dir != "enc-absent", "")}
					c12Record(c, "every-registered-key")
					Direct(t, "C12", "c12", fmt.Sprintf("registered/%s/%s/%s", tb.QName, key, dir), c, oracleC12)
				}
			}
		}
		// text keys: a value longer than the field whose first bytes are a registered key is NOT a registered
		// value (no wire field can carry it): the encoder must not fill in a type for it
		for ti, tb := range TableList {
			if !MyShare(ti) || tb.KeyType != "text" {
				continue
			}
			for ki, key := range tb.Order {
				for _, suffix := range []string{"1", "X", "00", "\x00"} {
					k2 := key + suffix
					c := &CaseC12{Table: tb.QName, Holder: holderOf(tb), Key: k2, Dir: "enc-absent", V: holderWithKey(seed+ki, tb, k2, false, "")}
					c12Record(c, "registered-key-plus-extra-bytes")
					Direct(t, "C12", "c12", fmt.Sprintf("overlong/%s/%q", tb.QName, k2), c, oracleC12)
				}
			}
		}
		// text keys: one character of a registered key replaced by a sign, blank or other number-syntax character
		for ti, tb := range TableList {
			if !MyShare(ti) || tb.KeyType != "text" {
				continue
			}
			holder := holderOf(tb)
			hts := Types[holder]
			df := hts.Fields[hts.FieldIndex(hts.Fields[hts.DynIndex()].Disc)]
			someType := tb.TypeFor(tb.Order[0])
			for ki, key := range tb.Order {
				for pos := 0; pos < len(key); pos++ {
					for _, ch := range []byte{'+', '-', ' ', '.', 'e', 'x', '_', '\t', 0} {
						b := []byte(key)
						b[pos] = ch
						k2 := string(stripPadSide(b, byte(df.Pad), df.Left))
						if tb.TypeFor(k2) != "" {
							continue
						}
						for _, dir := range []string{"dec", "enc-absent"} {
							c := &CaseC12{Table: tb.QName, Holder: holder, Key: k2, Dir: dir, V: holderWithKey(seed+ki, tb, k2, dir == "dec", someType)}
							c12Record(c, "registered-key-with-one-syntax-character")
							Direct(t, "C12", "c12", fmt.Sprintf("syntax/%s/%q/%s", tb.QName, k2, dir), c, oracleC12)
						}
					}
				}
			}
		}
		// holders inside their frames: every (frame message type that carries the holder) x (holder key), extension absent
		for ti, ftb := range TableList {
			if !MyShare(ti) || ftb.KeyType == "text" {
				continue
			}
			frame := holderOf(ftb)
			fts := Types[frame]
			seenPair := map[string]bool{}
			for _, k1 := range ftb.Order {
				h := ftb.TypeFor(k1)
				hts := Types[h]
				if hts.DynIndex() < 0 {
					continue
				}
				htb := TableOf(hts, &hts.Fields[hts.DynIndex()])
				keys := append([]string{}, htb.Order...)
				keys = append(keys, "", "999", "02")
				for ki, k2 := range keys {
					if ki%3 != 0 && seenPair[h+k2] { // each holder key under at least one frame type, a third of them under every one
						continue
					}
					seenPair[h+k2] = true
					fv := Zero(frame)
					setKey(fv, fts, fts.FieldIndex(fts.Fields[fts.DynIndex()].Disc), k1)
					hv := holderWithKey(seed+ki, htb, k2, false, "")
					fv.F[fts.DynIndex()].O = hv
					c := &CaseC12{Table: htb.QName, Holder: h, Key: k2, Dir: "enc-absent-nested", V: fv}
					c12Record(c, "holder-inside-its-frame")
					Direct(t, "C12", "c12", fmt.Sprintf("nested/%s/%s/%q", frame, k1, k2), c, oracleC12)
				}
			}
		}
		// fragments of sibling message names glued to a registered key ("Ack031" for the table of TradeCaptureReport,
		// whose sibling TradeCaptureReportAck registers "031"): not registered values
		for ti, tb := range TableList {
			if !MyShare(ti) || tb.KeyType != "text" {
				continue
			}
			h1 := Types[holderOf(tb)].Name
			for _, tb2 := range TableList {
				if tb2.Module != tb.Module || tb2.KeyType != "text" {
					continue
				}
				h2 := Types[holderOf(tb2)].Name
				var frags []string
				if len(h2) > len(h1) && h2[:len(h1)] == h1 {
					frags = append(frags, h2[len(h1):])
				}
				if len(h1) > len(h2) && h1[:len(h2)] == h2 {
					frags = append(frags, h1[len(h2):])
				}
				for _, fr := range frags {
					for ki, key := range tb2.Order {
						for _, k2 := range []string{fr + key, key + fr} {
							if tb.TypeFor(k2) != "" {
								continue
							}
							c := &CaseC12{Table: tb.QName, Holder: holderOf(tb), Key: k2, Dir: "enc-absent", V: holderWithKey(seed+ki, tb, k2, false, "")}
							c12Record(c, "sibling-name-fragment-glued-to-a-key")
							Direct(t, "C12", "c12", fmt.Sprintf("fragment/%s/%q", tb.QName, k2), c, oracleC12)
						}
					}
				}
			}
		}
		Col.MarkExhaustive("all 226 registered keys of the 18 pinned tables x {decode, encode-with-absent-part, round trip}")
	})
	t.Run("enumerated-keyspace", func(t *testing.T) {
		for ti, tb := range TableList {
			if !MyShare(ti) {
				continue
			}
			var keys []string
			switch {
			case tb.KeyType == "text":
				for n := 0; n < 1000; n++ {
					keys = append(keys, fmt.Sprintf("%03d", n))
				}
			case tb.KeyType == "uint16":
				for n := 0; n < 65536; n++ {
					keys = append(keys, strconv.Itoa(n))
				}
			default:
				// uint32 frames: a dense window around every registered key and the low range
				seen := map[uint64]bool{}
				add := func(n uint64) {
					if n <= 0xffffffff && !seen[n] {
						seen[n] = true
						keys = append(keys, strconv.FormatUint(n, 10))
					}
				}
				for n := uint64(0); n < 4096; n++ {
					add(n)
				}
				for _, k := range tb.Order {
					r, _ := strconv.ParseUint(k, 10, 64)
					for d := uint64(0); d <= 64; d++ {
						add(r + d)
						if r >= d {
							add(r - d)
						}
					}
				}
			}
			someType := tb.TypeFor(tb.Order[0])
			for i, key := range keys {
				dirs := []string{"dec"}
				if i%7 == 0 || tb.TypeFor(key) != "" {
					dirs = append(dirs, "enc-absent")
				}
				for _, dir := range dirs {
					pt := tb.TypeFor(key)
					if pt == "" {
						pt = someType
					}
					c := &CaseC12{Table: tb.QName, Holder: holderOf(tb), Key: key, Dir: dir, V: holderWithKey(seed, tb, key, dir == "dec", pt)}
					c12Record(c, "enumerated-keyspace")
					if !Direct(t, "C12", "c12", fmt.Sprintf("keyspace/%s/%s", tb.QName, dir), c, oracleC12) {
						break
					}
				}
			}
		}
		Col.MarkExhaustive("all 65536 sample message types; all 1000 three-digit ApplIDs of each of the 13 extension tables; 0..4095 and +-64 around every registered key of the 4 uint32 frame tables")
	})
	RunProps(t, rpC12Gen(false))
	c12History(t)
	t.Run("late-registration", c12LateRegistration)
}

// ---- one receiver, several decodes: the type chosen must depend on the key on the wire only ----------------

type C12Step struct {
	Key string `json:"key"`
	Cut int    `json:"cut"` // -1: the whole message; otherwise only its first Cut bytes are offered
	V   *Value `json:"v"`
}

type CaseC12Hist struct {
	Table  string    `json:"table"`
	Holder string    `json:"holder"`
	Steps  []C12Step `json:"steps"`
}

func oracleC12Hist(c *CaseC12Hist) *Failure {
	tb := Tables[c.Table]
	ts := Types[c.Holder]
	di := ts.DynIndex()
	obj := regByName[c.Holder].New()
	sig := "C12/" + c.Table
	for i, st := range c.Steps {
		w := Render(st.V, nil).Bytes
		full := st.Cut < 0 || st.Cut >= len(w)
		if !full {
			w = w[:st.Cut]
		}
		buf := bytes.NewBuffer(append([]byte{}, w...))
		err, pan, _ := safely(func() error { return DecodeAny(obj, buf) })
		if pan != nil {
			return failf(sig+"/history-panic", "step %d (key %q) on a used receiver: Decode panicked: %v", i, st.Key, pan)
		}
		want := tb.TypeFor(st.Key)
		if err != nil {
			if full && want != "" {
				return failf(sig+"/history-registered-rejected", "step %d: complete message with registered key %q rejected on a used receiver: %v", i, st.Key, err)
			}
			continue
		}
		if want == "" {
			return failf(sig+"/history-unregistered-accepted", "step %d: unregistered key %q decoded successfully into a receiver used before (steps so far: %s)", i, st.Key, stepKeys(c.Steps[:i+1]))
		}
		got, cerr := FromStruct(obj, c.Holder)
		if cerr != nil {
			return failf(sig+"/history-wrong-type", "step %d (key %q): %v", i, st.Key, cerr)
		}
		if got.F[di].O == nil || got.F[di].O.Type != want {
			gt := "<nil>"
			if got.F[di].O != nil {
				gt = got.F[di].O.Type
			}
			return failf(sig+"/history-wrong-type", "step %d: key %q decoded into a used receiver built %s, pinned type is %s (steps so far: %s)", i, st.Key, gt, want, stepKeys(c.Steps[:i+1]))
		}
	}
	return nil
}

func stepKeys(s []C12Step) string {
	out := ""
	for _, st := range s {
		out += fmt.Sprintf("%q/cut=%d ", st.Key, st.Cut)
	}
	return out
}

func init() { registerReplay("c12hist", oracleC12Hist) }

// lateWireImage registers the application's part under the table's late key and returns a valid wire image of the
// table's holder carrying that key and the application part's five bytes (length and checksum right for this image).
func lateWireImage(tb *Table, reg func() string) (key string, wire []byte, ok bool) {
	holder := holderOf(tb)
	ts := Types[holder]
	di := ts.DynIndex()
	key = reg()
	full := Render(Skeleton(holder, 0), &RenderOpts{Spans: true})
	var bodyOff, bodyLen int = -1, 0
	for _, sp := range full.Spans {
		if sp.Kind == "body" && sp.Path == "$."+ts.Fields[di].Go {
			bodyOff, bodyLen = sp.Off, sp.Len
		}
	}
	if bodyOff < 0 {
		return key, nil, false
	}
	kv := Skeleton(holder, 0)
	setKey(kv, ts, ts.FieldIndex(ts.Fields[di].Disc), key)
	kb := Render(kv, nil).Bytes // same layout as full, key bytes replaced
	part := []byte{0x5A, 1, 2, 3, 4}
	wire = append(append(append([]byte{}, kb[:bodyOff]...), part...), kb[bodyOff+bodyLen:]...)
	// self-computed fields of a frame must be right for THIS wire image (a decoder may verify them)
	for _, sp := range full.Spans {
		if sp.Path == "$."+lenFieldName(ts) && sp.Kind == "len" {
			copy(wire[sp.Off:], putUint(nil, uint64(len(part)), sp.Len, ts.LE))
		}
	}
	if cf := ckFieldName(ts); cf != "" {
		f := ts.Fields[ts.FieldIndex(cf)]
		n := NSize(f.NType)
		sum := refChecksum(f.Algo, wire[:len(wire)-n])
		copy(wire[len(wire)-n:], putUint(nil, sum&NMask(f.NType), n, ts.LE))
	}
	return key, wire, true
}

// c12LateRegistration: after the library has been used (every earlier subtest of this process decoded through
// every table), an application registers a message type of its own under a fresh key; a message carrying that
// key must now decode into the application's type, stream-decode correctly, and the pinned keys must be unaffected.
// Runs last: the registration cannot be undone.
func c12LateRegistration(t *testing.T) {
	for ti, tb := range TableList {
		if !MyShare(ti) {
			continue
		}
		reg := lateRegister[tb.QName]
		if reg == nil {
			Col.BrokenHarness("no late-registration hook for table " + tb.QName)
			continue
		}
		holder := holderOf(tb)
		ts := Types[holder]
		di := ts.DynIndex()
		// make sure the table has been consulted before (a decode with a pinned key)
		base := Skeleton(holder, 0)
		if _, _, err, pan := LibDecode(holder, Render(base, nil).Bytes); err != nil || pan != nil {
			Col.BrokenHarness("skeleton of " + holder + " does not decode")
			continue
		}
		key, wire, okw := lateWireImage(tb, reg)
		Col.Case(Hash64([]byte(tb.QName), []byte("late")), true, "late-registration")
		if !okw {
			Col.BrokenHarness("cannot locate the part of " + holder)
			continue
		}
		stream := append(append([]byte{}, wire...), Render(base, nil).Bytes...)
		obj := regByName[holder].New()
		buf := bytes.NewBuffer(stream)
		err, pan, _ := safely(func() error { return DecodeAny(obj, buf) })
		sig := "C12/" + tb.QName
		fail := func(kind, format string, a ...any) {
			f := failf(sig+"/"+kind, format, a...)
			Col.Violation("C12", "c12late", "late/"+tb.QName, f.Signature, f.Msg, "enumeration", map[string]any{"table": tb.QName, "key": key, "wire": hexClip(wire)})
			t.Errorf("%s: %s", f.Signature, f.Msg)
		}
		if pan != nil {
			fail("late-registration-panic", "key %q registered by the application after start-up: Decode panicked: %v", key, pan)
			continue
		}
		if err != nil {
			fail("late-registration-ignored", "key %q was registered through %s after the table had already been used, yet Decode rejects it: %v", key, tb.Name, err)
			continue
		}
		got := reflect.ValueOf(obj).Elem().FieldByName(ts.Fields[di].Go)
		ap, ok := got.Interface().(*AppPart)
		if !ok || ap.Tag != 0x5A {
			fail("late-registration-wrong-type", "key %q: decoder built %T instead of the application's registered type", key, got.Interface())
			continue
		}
		// the next message in the stream (pinned key) must still decode to its pinned type
		obj2 := regByName[holder].New()
		if e2, p2, _ := safely(func() error { return DecodeAny(obj2, buf) }); e2 != nil || p2 != nil {
			fail("late-registration-breaks-stream", "after a message with the application's key, the following pinned message no longer decodes: err=%v panic=%v", e2, p2)
			continue
		}
		if g2, cerr := FromStruct(obj2, holder); cerr != nil || Diff(g2, Computed(base)) != "" {
			fail("late-registration-breaks-pinned", "after the late registration a pinned key decodes differently: %v %s", cerr, Diff(g2, Computed(base)))
		}
	}
	Col.MarkExhaustive("late registration of an application-defined type in each of the 18 tables after the table was used")
}

func c12History(t *testing.T) { RunProps(t, rpC12Hist(false)) }

func rpC12Hist(all bool) (out []RProp) {
	for ti, tb := range TableList {
		if !all && !MyShare(ti) && EnvNShards() <= len(TableList) {
			continue
		}
		tb := tb
		{
			holder := holderOf(tb)
			ts := Types[holder]
			df := &ts.Fields[ts.FieldIndex(ts.Fields[ts.DynIndex()].Disc)]
			out = append(out, MkProp("C12", "c12hist", "receiver-history/"+tb.QName, func(rt *rapid.T) *CaseC12Hist {
				c := &CaseC12Hist{Table: tb.QName, Holder: holder}
				g := &gen{rt: rt, feat: &Features{}, mult: 1}
				n := rapid.IntRange(2, 4).Draw(rt, "steps")
				prev := ""
				for i := 0; i < n; i++ {
					var key string
					switch rapid.IntRange(0, 3).Draw(rt, "kk") {
					case 0:
						key = g.unregisteredKey("key", tb, df)
					case 1:
						if prev != "" {
							key = prev
							break
						}
						fallthrough
					default:
						key = tb.Order[rapid.IntRange(0, len(tb.Order)-1).Draw(rt, "reg")]
					}
					prev = key
					pt := tb.TypeFor(key)
					if pt == "" {
						pt = tb.TypeFor(tb.Order[rapid.IntRange(0, len(tb.Order)-1).Draw(rt, "part")])
					}
					v := holderWithKeyRT(rt, tb, key, true, pt)
					st := C12Step{Key: key, Cut: -1, V: v}
					if rapid.IntRange(0, 3).Draw(rt, "trunc") == 0 {
						if l := len(Render(v, nil).Bytes); l > 0 {
							st.Cut = rapid.IntRange(0, l-1).Draw(rt, "cut")
						}
					}
					c.Steps = append(c.Steps, st)
				}
				Col.Case(Hash64(JSONOf(c)), true, "receiver-history", "table:"+tb.QName)
				Col.Program(holder)
				if Col.WantSample("receiver-history") && len(JSONOf(c)) < 3000 {
					Col.Sample("receiver-history", c)
				}
				return c
			}, oracleC12Hist))
		}
	}
	return
}

func rpC12Gen(all bool) (out []RProp) {
	for ti, tb := range TableList {
		if !all && !MyShare(ti) && EnvNShards() <= len(TableList) {
			continue
		}
		tb := tb
		{
			holder := holderOf(tb)
			ts := Types[holder]
			df := &ts.Fields[ts.FieldIndex(ts.Fields[ts.DynIndex()].Disc)]
			out = append(out, MkProp("C12", "c12", "generated/"+tb.QName, func(rt *rapid.T) *CaseC12 {
				g := &gen{rt: rt, feat: &Features{}, mult: 1}
				key := g.unregisteredKey("key", tb, df)
				dir := rapid.SampledFrom([]string{"dec", "enc-absent"}).Draw(rt, "dir")
				pt := tb.TypeFor(tb.Order[rapid.IntRange(0, len(tb.Order)-1).Draw(rt, "part")])
				c := &CaseC12{Table: tb.QName, Holder: holder, Key: key, Dir: dir, V: holderWithKeyRT(rt, tb, key, dir == "dec", pt)}
				c12Record(c, "generated-unregistered")
				return c
			}, oracleC12))
		}
	}
	return
}

func init() {
	RapidProps["C12"] = func() []RProp { return append(rpC12Gen(true), rpC12Hist(true)...) }
}
