package harness

// C06 — encoding depends only on the message: append-only, context-free, repeatable.
// Model-based: the model is the byte string the buffer must hold (unread part).

import (
	"bytes"
	"testing"

	"pgregory.net/rapid"
)

func oracleC06(c *CaseHist) *Failure {
	defer runPrelude(c.Env)()
	buf := &bytes.Buffer{}
	var model []byte
	type enc struct {
		obj any
		e0  []byte
		err bool
		typ string
	}
	encs := map[int]*enc{}
	for i := range c.Ops {
		op := &c.Ops[i]
		switch op.Kind {
		case "cap": // the buffer starts out with this much capacity (a pooled or pre-grown buffer)
			if i == 0 {
				buf = bytes.NewBuffer(make([]byte, 0, op.K))
			}
		case "fill":
			fill := bytes.Repeat([]byte{0x55}, op.K)
			buf.Write(fill)
			model = append(model, fill...)
		case "write":
			buf.Write(op.Raw)
			model = append(model, op.Raw...)
		case "consume":
			k := min(op.K, buf.Len())
			buf.Next(k)
			model = model[k:]
		case "drain":
			buf.Next(buf.Len())
			var one [1]byte
			buf.Read(one[:])
			model = model[:0]
		case "encode", "reencode":
			var e *enc
			if op.Kind == "encode" {
				// expected bytes: what this message produces into an empty buffer. Where the pinned schema defines
				// the outcome the interpreter supplies it (so that the library's first call on this message is the
				// one into the shared buffer); otherwise a stand-alone library encoding of an identical copy.
				if r := Render(op.V, nil); !r.MustError && !r.MayError {
					e = &enc{obj: ToStruct(op.V), e0: r.Bytes, err: false, typ: op.V.Type}
				} else {
					e0, _, err0, pan0 := LibEncode(op.V.Clone())
					if pan0 != nil {
						return nil // C17's business; nothing to compare
					}
					e = &enc{obj: ToStruct(op.V), e0: append([]byte{}, e0...), err: err0 != nil, typ: op.V.Type}
				}
				encs[i] = e
			} else {
				e = encs[op.Ref]
				if e == nil {
					continue
				}
			}
			err, pan, _ := safely(func() error { return EncodeAny(e.obj, buf) })
			sig := "C06/" + e.typ
			if pan != nil {
				return failf(sig+"/panic", "op %d (%s): Encode panicked in a shared buffer but not into an empty one: %v", i, op.Kind, pan)
			}
			if (err != nil) != e.err {
				return failf(sig+"/error-differs", "op %d (%s): error=%v here, error=%v into an empty buffer", i, op.Kind, err, e.err)
			}
			model = append(model, e.e0...)
		}
		if !bytes.Equal(buf.Bytes(), model) {
			got := buf.Bytes()
			d := firstDiff(got, model)
			kind := "appended-bytes-differ"
			typ := ""
			if op.V != nil {
				typ = op.V.Type
			} else if e := encs[op.Ref]; e != nil {
				typ = e.typ
			}
			prefixLen := len(model)
			if op.Kind == "encode" || op.Kind == "reencode" {
				prefixLen = len(model) - len(encs[refOf(i, op)].e0)
			}
			if d < prefixLen {
				kind = "earlier-bytes-altered"
			}
			if op.Kind == "reencode" {
				kind = "reencode-" + kind
			}
			return failf("C06/"+typ+"/"+kind, "after op %d (%s): unread buffer has %d bytes, model %d; first difference at %d (bytes before this op: %d); buffer %s, model %s",
				i, op.Kind, len(got), len(model), d, prefixLen, hexClip(tailFrom(got, d)), hexClip(tailFrom(model, d)))
		}
	}
	return nil
}

func refOf(i int, op *Op) int {
	if op.Kind == "reencode" {
		return op.Ref
	}
	return i
}

func tailFrom(b []byte, d int) []byte {
	if d < 0 || d > len(b) {
		return nil
	}
	return b[d:]
}

func init() { registerReplay("c06", oracleC06) }

func genHistoryAny(rt *rapid.T, focus string) (*CaseHist, map[string]int) {
	c := &CaseHist{}
	st := map[string]int{}
	unread, consumed := 0, false
	nops := rapid.IntRange(2, 9).Draw(rt, "nops")
	var encIdx []int
	if rapid.IntRange(0, 5).Draw(rt, "envknob") == 5 {
		c.Env = append(c.Env, genEnvKnob(rt))
		if Types[focus].DynIndex() >= 0 && rapid.Bool().Draw(rt, "envfail") {
			c.Env = append(c.Env, PreOp{Kind: "encfail", Type: focus, K: rapid.SampledFrom([]int{0, 1, 28, 200}).Draw(rt, "failafter")})
		}
		st["process-setting-varied"]++
	}
	if rapid.IntRange(0, 4).Draw(rt, "geometry") == 0 {
		// buffer geometry: a pre-sized buffer written almost to the end and almost entirely consumed, then a message
		// that does not fit the free tail but fits once the unread bytes are slid down: the buffer moves its content
		// inside the same array in the middle of this Encode (capacity unchanged)
		o := DefaultOpts(Arbitrary)
		o.BigProb, o.MaxList, o.HugeProb, o.HugeObj = 80, 300, 0, 0
		v, _ := GenValue(rt, focus, o)
		if r := Render(v, nil); !r.MustError && !r.MayError && len(r.Bytes) >= 8 {
			l := len(r.Bytes)
			keep := rapid.SampledFrom([]int{0, 1, 7, 60}).Draw(rt, "keep")
			capC := 2*(l+keep) + rapid.IntRange(0, l).Draw(rt, "capextra")
			tail := rapid.IntRange(1, l-1).Draw(rt, "tail")
			w := capC - tail
			c.Ops = append(c.Ops, Op{Kind: "cap", K: capC}, Op{Kind: "fill", K: w}, Op{Kind: "consume", K: w - keep}, Op{Kind: "encode", V: v})
			encIdx = append(encIdx, len(c.Ops)-1)
			unread, consumed = keep+l, true
			st["message-sized-to-make-the-buffer-slide-during-encode"]++
			st["encode-with-unread-after-partial-consume"]++
		}
	}
	for i := 0; i < nops; i++ {
		kinds := []string{"encode", "encode", "encode", "write", "consume", "consume", "drain"}
		if len(encIdx) > 0 {
			kinds = append(kinds, "reencode", "reencode")
		}
		k := rapid.SampledFrom(kinds).Draw(rt, "op")
		switch k {
		case "write":
			raw := rapid.SliceOfN(rapid.Byte(), 1, 24).Draw(rt, "raw")
			c.Ops = append(c.Ops, Op{Kind: "write", Raw: raw})
			unread += len(raw)
		case "consume":
			if unread == 0 {
				continue
			}
			n := rapid.IntRange(1, unread).Draw(rt, "k")
			c.Ops = append(c.Ops, Op{Kind: "consume", K: n})
			unread -= n
			consumed = true
		case "drain":
			c.Ops = append(c.Ops, Op{Kind: "drain"})
			unread, consumed = 0, false
		case "reencode":
			if unread > 0 {
				st["reencode-with-unread"]++
			}
			st["reencode"]++
			c.Ops = append(c.Ops, Op{Kind: "reencode", Ref: rapid.SampledFrom(encIdx).Draw(rt, "ref")})
			unread++
		case "encode":
			tn := focus
			if rapid.IntRange(0, 2).Draw(rt, "other") == 0 {
				tn = rapid.SampledFrom(TypeNames).Draw(rt, "type")
			}
			o := DefaultOpts(Arbitrary)
			o.BigProb, o.MaxList, o.HugeProb, o.HugeObj = 80, 2000, 0, 0 // the model compares the whole buffer after every step: keep histories small
			v, ft := GenValue(rt, tn, o)
			c.Ops = append(c.Ops, Op{Kind: "encode", V: v})
			encIdx = append(encIdx, len(c.Ops)-1)
			if unread > 0 {
				st["encode-with-unread"]++
				if consumed {
					st["encode-with-unread-after-partial-consume"]++
				}
			}
			if ft.Absent > 0 {
				st["absent-part"]++
			}
			if Types[tn].IsFrame() {
				st["frame"]++
			}
			unread += 1 + len(Types[tn].Fields)
		}
	}
	return c, st
}

func TestC06(t *testing.T) {
	Col.Property = "C06"
	ReplayRegress(t, "C06")
	RunProps(t, rpC06(MyTypes()))
}

func init() { RapidProps["C06"] = func() []RProp { return rpC06(TypeNames) } }

func rpC06(types []string) (out []RProp) {
	for _, tn := range types {
		tn := tn
		out = append(out, MkProp("C06", "c06", tn, func(rt *rapid.T) *CaseHist {
			c, st := genHistoryAny(rt, tn)
			var cls []string
			for k := range st {
				cls = append(cls, k)
			}
			nt := st["encode-with-unread-after-partial-consume"] > 0 || st["reencode"] > 0
			Col.Case(Hash64(JSONOf(c)), nt, cls...)
			for _, op := range c.Ops {
				if op.V != nil {
					Col.Program(op.V.Type)
				}
			}
			if nt && Col.WantSample("history") && len(JSONOf(c)) < 2500 {
				Col.Sample("history", c)
			}
			return c
		}, oracleC06))
	}
	return
}
