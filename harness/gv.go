package harness

// Generic value tree (GV): the harness' own representation of a message value,
// independent of the library's structs. Numbers are raw bit patterns, text is
// raw bytes. It is the serialisable form of every test case (replay files).

import (
	"bytes"
	"encoding/binary"
	"encoding/hex"
	"encoding/json"
	"fmt"
	"hash/fnv"
	"math"
	"reflect"

	"github.com/xinchentechnote/fin-proto-go/codec"
	sample "github.com/xinchentechnote/fin-proto-go/sample-bin/messages"
)

type RegEntry struct {
	Name string
	New  func() any
	Ctor func() any
}

var (
	regByName = map[string]*RegEntry{}
	regByType = map[reflect.Type]string{}
)

func init() {
	for i := range registry {
		e := &registry[i]
		regByName[e.Name] = e
		regByType[reflect.TypeOf(e.New())] = e.Name
	}
}

type HexBytes []byte

func (h HexBytes) MarshalJSON() ([]byte, error) { return json.Marshal(hex.EncodeToString(h)) }
func (h *HexBytes) UnmarshalJSON(b []byte) error {
	var s string
	if err := json.Unmarshal(b, &s); err != nil {
		return err
	}
	d, err := hex.DecodeString(s)
	*h = d
	return err
}

type FV struct {
	N   uint64     `json:"n,omitempty"`
	T   HexBytes   `json:"t,omitempty"`
	NL  []uint64   `json:"nl,omitempty"`
	TL  []HexBytes `json:"tl,omitempty"`
	OL  []*Value   `json:"ol,omitempty"`
	O   *Value     `json:"o,omitempty"`
	Nil bool       `json:"nil,omitempty"` // list field holds a nil slice rather than an empty one
}

type Value struct {
	Type string `json:"type"`
	F    []FV   `json:"f"`
}

func (v *Value) Schema() *TypeSchema { return Types[v.Type] }

// Zero returns the GV of the zero value of a type.
func Zero(typeName string) *Value {
	ts := Types[typeName]
	v := &Value{Type: typeName, F: make([]FV, len(ts.Fields))}
	for i, f := range ts.Fields {
		switch f.Kind {
		case "numlist", "fixtextlist", "textlist", "objlist":
			v.F[i].Nil = true
		case "objval":
			v.F[i].O = Zero(ts.Module + "." + f.Elem)
		}
	}
	return v
}

func (v *Value) Clone() *Value {
	if v == nil {
		return nil
	}
	c := &Value{Type: v.Type, F: make([]FV, len(v.F))}
	for i, f := range v.F {
		n := FV{N: f.N, Nil: f.Nil}
		if f.T != nil {
			n.T = append(HexBytes{}, f.T...)
		}
		if f.NL != nil {
			n.NL = append([]uint64{}, f.NL...)
		}
		if f.TL != nil {
			n.TL = make([]HexBytes, len(f.TL))
			for j, t := range f.TL {
				n.TL[j] = append(HexBytes{}, t...)
			}
		}
		if f.OL != nil {
			n.OL = make([]*Value, len(f.OL))
			for j, o := range f.OL {
				n.OL[j] = o.Clone()
			}
		}
		n.O = f.O.Clone()
		c.F[i] = n
	}
	return c
}

func setNum(fv reflect.Value, ntype string, bits uint64) {
	switch fv.Kind() {
	case reflect.Int8:
		fv.SetInt(int64(int8(bits)))
	case reflect.Int16:
		fv.SetInt(int64(int16(bits)))
	case reflect.Int32:
		fv.SetInt(int64(int32(bits)))
	case reflect.Int64:
		fv.SetInt(int64(bits))
	case reflect.Uint8, reflect.Uint16, reflect.Uint32, reflect.Uint64:
		fv.SetUint(bits & NMask(ntype))
	case reflect.Float32:
		*(fv.Addr().Interface().(*float32)) = math.Float32frombits(uint32(bits))
	case reflect.Float64:
		*(fv.Addr().Interface().(*float64)) = math.Float64frombits(bits)
	default:
		panic("setNum: unexpected kind " + fv.Kind().String())
	}
}

func getNum(fv reflect.Value) uint64 {
	switch fv.Kind() {
	case reflect.Int8:
		return uint64(uint8(fv.Int()))
	case reflect.Int16:
		return uint64(uint16(fv.Int()))
	case reflect.Int32:
		return uint64(uint32(fv.Int()))
	case reflect.Int64:
		return uint64(fv.Int())
	case reflect.Uint8, reflect.Uint16, reflect.Uint32, reflect.Uint64:
		return fv.Uint()
	case reflect.Float32:
		return uint64(math.Float32bits(*(fv.Addr().Interface().(*float32))))
	case reflect.Float64:
		return math.Float64bits(*(fv.Addr().Interface().(*float64)))
	}
	panic("getNum: unexpected kind " + fv.Kind().String())
}

// ToStruct builds a fresh library object (pointer to struct) holding v.
func ToStruct(v *Value) any {
	ts := Types[v.Type]
	if ts == nil {
		panic("ToStruct: unknown type " + v.Type)
	}
	obj := regByName[v.Type].New()
	FillStruct(obj, v)
	return obj
}

// FillStruct overwrites every schema field of obj with v.
func FillStruct(obj any, v *Value) {
	ts := Types[v.Type]
	rv := reflect.ValueOf(obj).Elem()
	for i, f := range ts.Fields {
		fv := rv.FieldByName(f.Go)
		if !fv.IsValid() {
			panic(fmt.Sprintf("type %s has no field %s (schema/registry out of date)", v.Type, f.Go))
		}
		x := &v.F[i]
		switch f.Kind {
		case "num", "len", "checksum":
			setNum(fv, f.NType, x.N)
		case "fixtext", "text":
			fv.SetString(string(x.T))
		case "numlist":
			if x.Nil {
				fv.Set(reflect.Zero(fv.Type()))
				break
			}
			s := reflect.MakeSlice(fv.Type(), len(x.NL), len(x.NL))
			for j, n := range x.NL {
				setNum(s.Index(j), f.NType, n)
			}
			fv.Set(s)
		case "fixtextlist", "textlist":
			if x.Nil {
				fv.Set(reflect.Zero(fv.Type()))
				break
			}
			s := make([]string, len(x.TL))
			for j, t := range x.TL {
				s[j] = string(t)
			}
			fv.Set(reflect.ValueOf(s))
		case "objlist":
			if x.Nil {
				fv.Set(reflect.Zero(fv.Type()))
				break
			}
			s := reflect.MakeSlice(fv.Type(), len(x.OL), len(x.OL))
			for j, o := range x.OL {
				s.Index(j).Set(reflect.ValueOf(ToStruct(o)))
			}
			fv.Set(s)
		case "obj":
			if x.O == nil {
				fv.Set(reflect.Zero(fv.Type()))
			} else {
				fv.Set(reflect.ValueOf(ToStruct(x.O)))
			}
		case "objval":
			fv.Set(reflect.ValueOf(ToStruct(x.O)).Elem())
		case "dyn":
			if x.O == nil {
				fv.Set(reflect.Zero(fv.Type()))
			} else {
				fv.Set(reflect.ValueOf(ToStruct(x.O)))
			}
		default:
			panic("FillStruct: kind " + f.Kind)
		}
	}
}

// FromStruct reads a library object back into a GV. A dynamic part whose
// runtime type is not one of the 170 registered types yields an error.
func FromStruct(obj any, typeName string) (*Value, error) {
	ts := Types[typeName]
	rv := reflect.ValueOf(obj)
	if rv.Kind() == reflect.Ptr {
		if rv.IsNil() {
			return nil, fmt.Errorf("nil %s", typeName)
		}
		rv = rv.Elem()
	}
	if !rv.CanAddr() {
		c := reflect.New(rv.Type()).Elem()
		c.Set(rv)
		rv = c
	}
	v := &Value{Type: typeName, F: make([]FV, len(ts.Fields))}
	for i, f := range ts.Fields {
		fv := rv.FieldByName(f.Go)
		x := &v.F[i]
		switch f.Kind {
		case "num", "len", "checksum":
			x.N = getNum(fv)
		case "fixtext", "text":
			x.T = HexBytes(fv.String())
		case "numlist":
			if fv.IsNil() {
				x.Nil = true
				break
			}
			x.NL = make([]uint64, fv.Len())
			for j := range x.NL {
				x.NL[j] = getNum(fv.Index(j))
			}
		case "fixtextlist", "textlist":
			if fv.IsNil() {
				x.Nil = true
				break
			}
			x.TL = make([]HexBytes, fv.Len())
			for j := range x.TL {
				x.TL[j] = HexBytes(fv.Index(j).String())
			}
		case "objlist":
			if fv.IsNil() {
				x.Nil = true
				break
			}
			x.OL = make([]*Value, fv.Len())
			for j := range x.OL {
				e := fv.Index(j)
				if e.IsNil() {
					return nil, fmt.Errorf("%s.%s[%d] is nil", typeName, f.Go, j)
				}
				o, err := FromStruct(e.Interface(), ts.Module+"."+f.Elem)
				if err != nil {
					return nil, err
				}
				x.OL[j] = o
			}
		case "obj":
			if fv.IsNil() {
				break
			}
			o, err := FromStruct(fv.Interface(), ts.Module+"."+f.Elem)
			if err != nil {
				return nil, err
			}
			x.O = o
		case "objval":
			o, err := FromStruct(fv.Addr().Interface(), ts.Module+"."+f.Elem)
			if err != nil {
				return nil, err
			}
			x.O = o
		case "dyn":
			if fv.IsNil() {
				break
			}
			e := fv.Elem() // the *T inside the interface
			name, ok := regByType[e.Type()]
			if !ok {
				return nil, fmt.Errorf("%s.%s holds unregistered dynamic type %s", typeName, f.Go, e.Type())
			}
			if e.Kind() == reflect.Ptr && e.IsNil() {
				return nil, fmt.Errorf("%s.%s holds typed nil %s", typeName, f.Go, e.Type())
			}
			o, err := FromStruct(e.Interface(), name)
			if err != nil {
				return nil, err
			}
			x.O = o
		}
	}
	return v, nil
}

// Equal: bit-exact on numbers, byte-exact on text, nil list == empty list.
// Returns "" when equal, else a path describing the first difference.
func Diff(a, b *Value) string {
	if a == nil || b == nil {
		if a == b {
			return ""
		}
		return fmt.Sprintf("one side absent (%v vs %v)", a != nil, b != nil)
	}
	if a.Type != b.Type {
		return fmt.Sprintf("type %s vs %s", a.Type, b.Type)
	}
	ts := Types[a.Type]
	for i, f := range ts.Fields {
		x, y := &a.F[i], &b.F[i]
		switch f.Kind {
		case "num", "len", "checksum":
			m := NMask(f.NType)
			if x.N&m != y.N&m {
				return fmt.Sprintf("%s.%s: %#x vs %#x", a.Type, f.Go, x.N&m, y.N&m)
			}
		case "fixtext", "text":
			if !bytes.Equal(x.T, y.T) {
				return fmt.Sprintf("%s.%s: %q vs %q", a.Type, f.Go, clip(x.T), clip(y.T))
			}
		case "numlist":
			if len(x.NL) != len(y.NL) {
				return fmt.Sprintf("%s.%s: list length %d vs %d", a.Type, f.Go, len(x.NL), len(y.NL))
			}
			m := NMask(f.NType)
			for j := range x.NL {
				if x.NL[j]&m != y.NL[j]&m {
					return fmt.Sprintf("%s.%s[%d]: %#x vs %#x", a.Type, f.Go, j, x.NL[j]&m, y.NL[j]&m)
				}
			}
		case "fixtextlist", "textlist":
			if len(x.TL) != len(y.TL) {
				return fmt.Sprintf("%s.%s: list length %d vs %d", a.Type, f.Go, len(x.TL), len(y.TL))
			}
			for j := range x.TL {
				if !bytes.Equal(x.TL[j], y.TL[j]) {
					return fmt.Sprintf("%s.%s[%d]: %q vs %q", a.Type, f.Go, j, clip(x.TL[j]), clip(y.TL[j]))
				}
			}
		case "objlist":
			if len(x.OL) != len(y.OL) {
				return fmt.Sprintf("%s.%s: list length %d vs %d", a.Type, f.Go, len(x.OL), len(y.OL))
			}
			for j := range x.OL {
				if d := Diff(x.OL[j], y.OL[j]); d != "" {
					return fmt.Sprintf("%s.%s[%d]: %s", a.Type, f.Go, j, d)
				}
			}
		case "obj", "objval", "dyn":
			if d := Diff(x.O, y.O); d != "" {
				return fmt.Sprintf("%s.%s: %s", a.Type, f.Go, d)
			}
		}
	}
	return ""
}

func clip(b []byte) []byte {
	if len(b) > 48 {
		return b[:48]
	}
	return b
}

// EncodeAny calls the library encoder of any of the 170 types.
func EncodeAny(obj any, buf *bytes.Buffer) error {
	switch x := obj.(type) {
	case codec.BinaryCodec:
		return x.Encode(buf)
	case *sample.SubOrder:
		x.Encode(buf) // hand-written, no error result
		return nil
	}
	panic(fmt.Sprintf("EncodeAny: %T has no Encode", obj))
}

func DecodeAny(obj any, buf *bytes.Buffer) error {
	return obj.(interface{ Decode(*bytes.Buffer) error }).Decode(buf)
}

func Hash64(parts ...[]byte) uint64 {
	h := fnv.New64a()
	for _, p := range parts {
		h.Write(p)
		h.Write([]byte{0xff, 0x00})
	}
	return h.Sum64()
}

// JSONOf is a stable textual form of a GV (hash input, sample output).
func JSONOf(v any) []byte {
	b, err := json.Marshal(v)
	if err != nil {
		panic(err)
	}
	return b
}

// DeepFingerprint hashes everything reachable from a library object through exported and unexported struct fields,
// pointers, interfaces, slices, arrays, maps-free: numbers by bit pattern, strings and byte slices by content. Unlike
// FromStruct it does not consult the schema, so fields added to a message type later are covered too.
func DeepFingerprint(obj any) uint64 {
	h := fnv.New64a()
	var walk func(rv reflect.Value, depth int)
	var w8 [8]byte
	put := func(x uint64) {
		binary.LittleEndian.PutUint64(w8[:], x)
		h.Write(w8[:])
	}
	walk = func(rv reflect.Value, depth int) {
		if depth > 12 || !rv.IsValid() {
			return
		}
		switch rv.Kind() {
		case reflect.Ptr, reflect.Interface:
			if rv.IsNil() {
				put(0)
				return
			}
			put(1)
			walk(rv.Elem(), depth+1)
		case reflect.Struct:
			for i := 0; i < rv.NumField(); i++ {
				walk(rv.Field(i), depth+1)
			}
		case reflect.Slice:
			if rv.IsNil() {
				put(2)
				return
			}
			put(uint64(rv.Len()))
			if rv.Type().Elem().Kind() == reflect.Uint8 {
				for i := 0; i < rv.Len(); i++ {
					h.Write([]byte{byte(rv.Index(i).Uint())})
				}
				return
			}
			for i := 0; i < rv.Len(); i++ {
				walk(rv.Index(i), depth+1)
			}
		case reflect.Array:
			for i := 0; i < rv.Len(); i++ {
				walk(rv.Index(i), depth+1)
			}
		case reflect.String:
			put(uint64(rv.Len()))
			h.Write([]byte(rv.String()))
		case reflect.Bool:
			if rv.Bool() {
				put(1)
			} else {
				put(0)
			}
		case reflect.Int, reflect.Int8, reflect.Int16, reflect.Int32, reflect.Int64:
			put(uint64(rv.Int()))
		case reflect.Uint, reflect.Uint8, reflect.Uint16, reflect.Uint32, reflect.Uint64, reflect.Uintptr:
			put(rv.Uint())
		case reflect.Float32, reflect.Float64:
			put(math.Float64bits(rv.Float()))
		}
	}
	walk(reflect.ValueOf(obj), 0)
	return h.Sum64()
}
