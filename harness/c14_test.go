package harness

// C14 — each named checksum algorithm computes its published definition.

import (
	"bytes"
	"fmt"
	"testing"

	"github.com/xinchentechnote/fin-proto-go/codec"
	"pgregory.net/rapid"
)

// A C14 input is a run-length string (byte, repeat)*, optionally behind a
// consumed prefix of the buffer.
type Run struct {
	B byte `json:"b"`
	N int  `json:"n"`
}
type CaseC14 struct {
	Algo     string    `json:"algo"`
	Runs     []Run     `json:"runs,omitempty"`
	Raw      HexBytes  `json:"raw,omitempty"`
	Consumed int       `json:"consumed"`       // bytes written before the data and read away again
	Then     []C14Edit `json:"then,omitempty"` // afterwards the SAME buffer is changed (in place, or reset and refilled) and checksummed again
}

// C14Edit: one later state of the same buffer memory.
type C14Edit struct {
	Kind string   `json:"kind"`          // patch: bytes at Off are overwritten in place; refill: Reset, then Data is written (same backing array)
	Off  int      `json:"off,omitempty"` // patch offset (mod len)
	Data HexBytes `json:"data"`
}

func (c *CaseC14) data() []byte {
	if c.Raw != nil {
		return c.Raw
	}
	n := 0
	for _, r := range c.Runs {
		n += r.N
	}
	d := make([]byte, 0, n)
	for _, r := range c.Runs {
		d = append(d, bytes.Repeat([]byte{r.B}, r.N)...)
	}
	return d
}

var c14Algos = []string{"CRC16", "CRC32", "SSE_BIN", "SZSE_BIN"}

// libChecksum looks the service up by its registered name, the way the frames do.
func libChecksum(algo string, buf *bytes.Buffer) (val int64, ok bool) {
	svc, found := codec.Get(algo)
	if !found {
		return 0, false
	}
	switch s := svc.(type) {
	case codec.ChecksumService[*bytes.Buffer, uint16]:
		return int64(s.Calc(buf)), true
	case codec.ChecksumService[*bytes.Buffer, uint32]:
		return int64(s.Calc(buf)), true
	case codec.ChecksumService[*bytes.Buffer, int32]:
		return int64(s.Calc(buf)), true
	}
	return 0, false
}

func oracleC14(c *CaseC14) *Failure {
	d := c.data()
	buf := &bytes.Buffer{}
	if c.Consumed > 0 {
		buf.Write(bytes.Repeat([]byte{0xA5}, c.Consumed))
		buf.Next(c.Consumed)
	}
	buf.Write(d)
	before := append([]byte{}, buf.Bytes()...)
	var got int64
	var ok bool
	_, p, _ := safely(func() error { got, ok = libChecksum(c.Algo, buf); return nil })
	if p != nil {
		return failf("C14/"+c.Algo+"/panic", "Calc panicked: %v", p)
	}
	if !ok {
		return failf("C14/"+c.Algo+"/missing", "service %s is not registered under its name", c.Algo)
	}
	want := int64(refChecksum(c.Algo, d))
	if len(d) <= 2048 { // harness self-check: the table form of the reference equals its bitwise definition
		switch c.Algo {
		case "CRC16":
			if uint64(want) != refCRCBitwise(d, 16, 0x8005, 0xFFFF, true, true, 0) {
				Col.BrokenHarness("reference CRC16 table/bitwise mismatch")
			}
		case "CRC32":
			if uint64(want) != refCRCBitwise(d, 32, 0x04C11DB7, 0xFFFFFFFF, true, true, 0xFFFFFFFF) {
				Col.BrokenHarness("reference CRC32 table/bitwise mismatch")
			}
		}
	}
	if got != want {
		return failf("C14/"+c.Algo+"/value", "%s over %d bytes: library %d (%#x), reference %d (%#x)", c.Algo, len(d), got, got, want, want)
	}
	if (c.Algo == "SSE_BIN" || c.Algo == "SZSE_BIN") && (got < 0 || got > 255) {
		return failf("C14/"+c.Algo+"/range", "%s result %d outside 0..255", c.Algo, got)
	}
	if buf.Len() != len(before) || !bytes.Equal(buf.Bytes(), before) {
		return failf("C14/"+c.Algo+"/consumes", "Calc changed the buffer: len %d -> %d", len(before), buf.Len())
	}
	got2, _ := libChecksum(c.Algo, buf)
	if got2 != got {
		return failf("C14/"+c.Algo+"/unstable", "second Calc returned %d, first %d", got2, got)
	}
	// the same memory with other content: the result is a function of the bytes given, not of what the buffer
	// (or the service) saw before
	for i, e := range c.Then {
		switch e.Kind {
		case "patch":
			b := buf.Bytes()
			if len(b) == 0 || len(e.Data) == 0 {
				continue
			}
			off := e.Off % len(b)
			copy(b[off:], e.Data)
		case "refill":
			buf.Reset()
			buf.Write(e.Data)
		default:
			continue
		}
		cur := append([]byte{}, buf.Bytes()...)
		g, _ := libChecksum(c.Algo, buf)
		if w := int64(refChecksum(c.Algo, cur)); g != w {
			return failf("C14/"+c.Algo+"/value-after-buffer-reuse", "%s over %d bytes after the buffer was changed (%s, step %d): library %d (%#x), reference %d (%#x)", c.Algo, len(cur), e.Kind, i, g, g, w, w)
		}
	}
	return nil
}

func init() { registerReplay("c14", oracleC14) }

func c14Nontrivial(d []byte) bool {
	if len(d) > 255 {
		return true
	}
	for _, b := range d {
		if b >= 0x80 {
			return true
		}
	}
	return false
}

func c14Record(c *CaseC14, d []byte, label string) {
	var sum uint64
	for _, b := range d {
		sum += uint64(b)
	}
	cls := []string{"algo:" + c.Algo, label}
	if sum >= 1<<31 {
		cls = append(cls, "bytesum>=2^31")
	}
	if len(d) > 255 {
		cls = append(cls, "len>255")
	}
	if c.Consumed > 0 {
		cls = append(cls, "consumed-prefix")
	}
	Col.Case(Hash64([]byte(c.Algo), d), c14Nontrivial(d) || sum >= 1<<31, cls...)
	if Col.WantSample(label + ":" + c.Algo) {
		Col.Sample(label, map[string]any{"algo": c.Algo, "len": len(d), "head": hexClip(d), "consumed": c.Consumed})
	}
}

func TestC14(t *testing.T) {
	Col.Property = "C14"
	ReplayRegress(t, "C14")
	// (1) exhaustive: every byte string of length <= 2 (quick) / <= 3 (thorough), sharded by first byte
	maxLen := 2
	if Thorough() {
		maxLen = 3
	}
	t.Run("exhaustive", func(t *testing.T) {
		for _, algo := range c14Algos {
			c := &CaseC14{Algo: algo, Raw: HexBytes{}}
			if EnvShard() == 0 {
				c14Record(c, c.Raw, "exhaustive")
				Direct(t, "C14", "c14", "exhaustive/"+algo, c, oracleC14)
			}
			d := make([]byte, 0, 3)
			var rec func(depth int) bool
			rec = func(depth int) bool {
				for b := 0; b < 256; b++ {
					if depth == 0 && !MyShare(b) {
						continue
					}
					d = append(d, byte(b))
					cc := &CaseC14{Algo: algo, Raw: d}
					if depth == 2 {
						// innermost level of the thorough tier: accounted in bulk (distinct by construction)
						if f := oracleC14(cc); f != nil {
							cc.Raw = append(HexBytes{}, d...)
							Direct(t, "C14", "c14", "exhaustive/"+algo, cc, oracleC14)
							return false
						}
					} else {
						cc.Raw = append(HexBytes{}, d...)
						c14Record(cc, d, "exhaustive")
						if !Direct(t, "C14", "c14", "exhaustive/"+algo, cc, oracleC14) {
							return false
						}
					}
					if depth+1 < maxLen && !rec(depth+1) {
						return false
					}
					d = d[:len(d)-1]
				}
				if depth == 2 {
					nt := int64(128) // last byte >= 0x80
					if d[0] >= 0x80 || d[1] >= 0x80 {
						nt = 256
					}
					Col.Bulk(256, nt, "exhaustive-len3")
				}
				return true
			}
			rec(0)
		}
		Col.MarkExhaustive(fmt.Sprintf("all byte strings of length <= %d, 4 algorithms", maxLen))
	})
	// (2) fixed long cases in every run: sums that cross 2^31
	t.Run("long", func(t *testing.T) {
		long := [][]Run{
			{{0xFF, 8421505}},                    // 0xFF * 8421505 = 2^31 + 127
			{{0xFF, 8421504}, {0x80, 1}},         // exactly 2^31
			{{0x80, 10 << 20}, {0xFF, 10 << 20}}, // 20 MiB of high bytes
		}
		for i, runs := range long {
			if !MyShare(i) {
				continue
			}
			for _, algo := range c14Algos {
				c := &CaseC14{Algo: algo, Runs: runs}
				c14Record(c, c.data(), "long")
				Direct(t, "C14", "c14", fmt.Sprintf("long/%d/%s", i, algo), c, oracleC14)
			}
		}
	})
	// (2b) lengths of the form m*2^k (m = 1, 3, 5, 7) and their neighbours: block sizes, stripes, table sizes
	t.Run("structured-lengths", func(t *testing.T) {
		maxK := 20
		if Thorough() {
			maxK = 23
		}
		i := 0
		for k := 10; k <= maxK; k++ {
			for _, m := range []int{1, 3, 5, 7} {
				for _, d := range []int{0, -1, 1} {
					i++
					if !MyShare(i) {
						continue
					}
					n := m<<uint(k) + d
					if n > 1<<uint(maxK+1) {
						continue
					}
					runs := []Run{{byte(0x31 + k), n / 3}, {0xC7, n/3 + n%3}, {byte(m), n / 3}}
					for _, algo := range c14Algos {
						c := &CaseC14{Algo: algo, Runs: runs}
						Col.Case(Hash64([]byte(algo), []byte(fmt.Sprint(n))), true, "structured-length", "algo:"+algo)
						if !Direct(t, "C14", "c14", fmt.Sprintf("len/%d/%s", n, algo), c, oracleC14) {
							return
						}
					}
				}
			}
		}
		Col.MarkExhaustive(fmt.Sprintf("lengths m*2^k and +-1 for m in {1,3,5,7}, k=10..%d, 4 algorithms", maxK))
	})
	RunProps(t, rpC14())
}

func init() { RapidProps["C14"] = rpC14 }

func rpC14() (out []RProp) {
	// (2c) complete frame images (header, body, trailer) of every protocol as checksum input
	out = append(out, MkProp("C14", "c14", "frame-images", func(rt *rapid.T) *CaseC14 {
		ft := frameOf(rapid.SampledFrom(ModuleIDs).Draw(rt, "module"))
		o := GenOpts{Mode: Canonical, MaxList: 300, BigProb: 20}
		v, _ := GenValue(rt, ft, o)
		w := Render(v, nil).Bytes
		switch rapid.IntRange(0, 2).Draw(rt, "part") {
		case 1: // without the trailer (what the encoder hands to the service)
			if len(w) >= 4 {
				w = w[:len(w)-4]
			}
		case 2: // two frames back to back
			w = append(append([]byte{}, w...), w...)
		}
		c := &CaseC14{Algo: rapid.SampledFrom(c14Algos).Draw(rt, "algo"), Raw: w}
		if c.Raw == nil {
			c.Raw = HexBytes{}
		}
		c14Record(c, w, "frame-image")
		return c
	}, oracleC14))
	// (3) generated
	maxRun := 1 << 16
	if Thorough() {
		maxRun = 1 << 22
	}
	out = append(out, MkProp("C14", "c14", "random", func(rt *rapid.T) *CaseC14 {
		c := &CaseC14{Algo: rapid.SampledFrom(c14Algos).Draw(rt, "algo")}
		if rapid.Bool().Draw(rt, "raw") {
			c.Raw = rapid.SliceOfN(rapid.Byte(), 0, 4096).Draw(rt, "raw")
			if c.Raw == nil {
				c.Raw = HexBytes{}
			}
		} else {
			n := rapid.IntRange(1, 6).Draw(rt, "nruns")
			for i := 0; i < n; i++ {
				b := rapid.OneOf(rapid.SampledFrom([]byte{0xFF, 0x80, 0x7F, 0x00, 0x01, 0xFE}), rapid.Byte()).Draw(rt, "b")
				k := rapid.OneOf(rapid.IntRange(0, 300), rapid.IntRange(0, maxRun)).Draw(rt, "n")
				c.Runs = append(c.Runs, Run{b, k})
			}
		}
		if rapid.IntRange(0, 3).Draw(rt, "hasPrefix") == 0 {
			c.Consumed = rapid.IntRange(1, 100).Draw(rt, "consumed")
		}
		if rapid.IntRange(0, 2).Draw(rt, "reuse") == 0 {
			l := len(c.data())
			for k := rapid.IntRange(1, 3).Draw(rt, "edits"); k > 0; k-- {
				e := C14Edit{Kind: rapid.SampledFrom([]string{"patch", "refill", "refill"}).Draw(rt, "ekind")}
				if e.Kind == "patch" {
					e.Off = rapid.IntRange(0, max(0, l-1)).Draw(rt, "eoff")
					e.Data = rapid.SliceOfN(rapid.Byte(), 1, 4).Draw(rt, "edata")
				} else {
					// mostly the same length as before (a frame of the same type with other content), sometimes another
					n := l
					if rapid.IntRange(0, 3).Draw(rt, "otherlen") == 0 {
						n = rapid.IntRange(0, 300).Draw(rt, "elen")
					}
					e.Data = expandBytes(min(n, 1<<16), rapid.Uint64().Draw(rt, "esalt"))
					if e.Data == nil {
						e.Data = HexBytes{}
					}
				}
				c.Then = append(c.Then, e)
			}
			Col.Class("same-buffer-changed-and-checksummed-again", 1)
		}
		c14Record(c, c.data(), "random")
		return c
	}, oracleC14))
	return
}
