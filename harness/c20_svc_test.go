package harness

// C20, the checksum services themselves: frames of different sessions call the ONE registered instance of a service at
// the same time (each on its own buffer). Every goroutine must get the value it gets alone - which is the published
// value (reference implementation) - for all four registered algorithms, whether or not a frame type uses them.

import (
	"bytes"
	"fmt"
	"runtime"
	"sync"
	"testing"
)

type CaseC20Svc struct {
	Salt       uint64 `json:"salt"`
	Goroutines int    `json:"goroutines"`
	Rounds     int    `json:"rounds"`
	Procs      int    `json:"gomaxprocs"`
	MaxLen     int    `json:"max_len"`
}

func oracleC20Svc(c *CaseC20Svc) *Failure {
	old := runtime.GOMAXPROCS(max(1, c.Procs))
	defer runtime.GOMAXPROCS(old)
	fails := make([]*Failure, c.Goroutines)
	var wg sync.WaitGroup
	start := make(chan struct{})
	for g := 0; g < c.Goroutines; g++ {
		wg.Add(1)
		go func(g int) {
			defer wg.Done()
			x := splitmix(c.Salt + uint64(g)*2654435761)
			// this goroutine's own inputs and their published checksums (reference, computed before the start signal)
			type in struct {
				algo string
				data []byte
				want int64
			}
			var ins []in
			for k := 0; k < 6; k++ {
				x = splitmix(x)
				n := int(x % uint64(c.MaxLen+1))
				if k == 0 {
					n = c.MaxLen
				}
				d := expandBytes(n, x)
				for _, a := range c14Algos {
					ins = append(ins, in{a, d, int64(refChecksum(a, d))})
				}
			}
			<-start
			var buf bytes.Buffer
			for r := 0; r < c.Rounds; r++ {
				for k := range ins {
					it := ins[(k+g+r)%len(ins)]
					buf.Reset()
					buf.Write(it.data)
					var got int64
					var ok bool
					_, pan, _ := safely(func() error { got, ok = libChecksum(it.algo, &buf); return nil })
					if pan != nil {
						fails[g] = failf("C20/"+it.algo+"/panic", "Calc panicked only when other goroutines were computing checksums too: %v", pan)
						return
					}
					if !ok {
						continue
					}
					if got != it.want {
						fails[g] = failf("C20/"+it.algo+"/service-result-differs", "goroutine %d of %d, round %d: %s over this goroutine's own %d-byte buffer returned %#x while %d other goroutines were computing checksums; alone (and by the published definition) it is %#x", g, c.Goroutines, r, it.algo, len(it.data), got, c.Goroutines-1, it.want)
						return
					}
				}
			}
		}(g)
	}
	close(start)
	wg.Wait()
	for _, f := range fails {
		if f != nil {
			return f
		}
	}
	return nil
}

func init() { registerReplay("c20svc", oracleC20Svc) }

func runC20Svc(t *testing.T) {
	x := splitmix(EnvSeed() ^ 0xC205)
	rounds := 40
	if Thorough() {
		rounds = 400
	}
	cfgs := []CaseC20Svc{{Goroutines: 8, Procs: 16, MaxLen: 1 << 18}, {Goroutines: 4, Procs: 2, MaxLen: 4096}, {Goroutines: 32, Procs: 4, MaxLen: 300}, {Goroutines: 3, Procs: 1, MaxLen: 1 << 20}}
	for i := range cfgs {
		if !MyShare(i) {
			continue
		}
		c := cfgs[i]
		x = splitmix(x + uint64(i))
		c.Salt, c.Rounds = x, rounds
		if c.MaxLen >= 1<<18 {
			c.Rounds = max(4, rounds/8)
		}
		Col.Case(Hash64(JSONOf(&c)), true, "four-checksum-services-called-from-parallel-goroutines")
		Col.Class("parallel-checksum-calls", int64(c.Goroutines*c.Rounds*24))
		if Col.WantSample("svc") {
			Col.Sample("svc", &c)
		}
		Direct(t, "C20", "c20svc", fmt.Sprintf("svc/%d", i), &c, oracleC20Svc)
	}
}
