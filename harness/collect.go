package harness

// Evidence collector and violation recorder. One per test process (= one shard).
// The driver (/verif/check) merges the per-shard files into /verif/evidence/<id>.json.

import (
	"encoding/binary"
	"encoding/json"
	"fmt"
	"os"
	"sort"
	"strconv"
	"sync"
	"time"
)

type ViolationRec struct {
	Property  string `json:"property"`
	Check     string `json:"check"`
	Scope     string `json:"scope"`
	Signature string `json:"signature"`
	Failure   string `json:"failure"`
	FoundBy   string `json:"found_by"`
	Seed      uint64 `json:"seed"`
	Shard     int    `json:"shard"`
	Case      any    `json:"case"`
	seq       int
}

type Collector struct {
	mu         sync.Mutex
	Property   string
	Evals      int64
	nontrivial map[uint64]struct{}
	Classes    map[string]int64
	Samples    []any
	sampleCap  int
	Programs   map[string]struct{}
	Extra      map[string]any
	Exhaustive []string
	violations map[string]*ViolationRec
	seq        int
	Broken     []string // harness self-check failures (=> exit 2, never a VIOLATION)
	bulkNT     int64    // distinct non-trivial cases of exhaustive enumerations (distinct by construction, partitioned over shards)
	start      time.Time
}

var Col = &Collector{
	nontrivial: map[uint64]struct{}{},
	Classes:    map[string]int64{},
	Programs:   map[string]struct{}{},
	Extra:      map[string]any{},
	violations: map[string]*ViolationRec{},
	sampleCap:  8,
	start:      time.Now(),
}

// Case records one executed case. hash identifies the case (type+bytes/ops);
// nontrivial says whether it meets the property's stated rule.
func (c *Collector) Case(hash uint64, nontrivial bool, classes ...string) {
	c.mu.Lock()
	c.Evals++
	if nontrivial {
		c.nontrivial[hash] = struct{}{}
	}
	for _, cl := range classes {
		c.Classes[cl]++
	}
	c.mu.Unlock()
}

// Bulk accounts for an exhaustively enumerated block of cases that are distinct by
// construction and partitioned over the shards (so no hash set is needed).
func (c *Collector) Bulk(evals, nontrivial int64, class string) {
	c.mu.Lock()
	c.Evals += evals
	c.bulkNT += nontrivial
	c.Classes[class] += evals
	c.mu.Unlock()
}

func (c *Collector) Class(cl string, n int64) {
	c.mu.Lock()
	c.Classes[cl] += n
	c.mu.Unlock()
}

func (c *Collector) Program(name string) {
	c.mu.Lock()
	c.Programs[name] = struct{}{}
	c.mu.Unlock()
}

// Sample keeps a few actual cases (the first few offered per label).
func (c *Collector) Sample(label string, s any) {
	c.mu.Lock()
	defer c.mu.Unlock()
	k := "samples:" + label
	if c.Classes[k] >= 2 || len(c.Samples) >= c.sampleCap {
		return
	}
	c.Classes[k]++
	c.Samples = append(c.Samples, map[string]any{"label": label, "case": s})
}

func (c *Collector) WantSample(label string) bool {
	c.mu.Lock()
	defer c.mu.Unlock()
	return c.Classes["samples:"+label] < 2 && len(c.Samples) < c.sampleCap
}

func (c *Collector) MaxExtra(key string, v float64) {
	c.mu.Lock()
	if old, ok := c.Extra[key].(float64); !ok || v > old {
		c.Extra[key] = v
	}
	c.mu.Unlock()
}

func (c *Collector) MarkExhaustive(what string) {
	c.mu.Lock()
	c.Exhaustive = append(c.Exhaustive, what)
	c.mu.Unlock()
}

func (c *Collector) BrokenHarness(msg string) {
	c.mu.Lock()
	if len(c.Broken) < 20 {
		c.Broken = append(c.Broken, msg)
	}
	c.mu.Unlock()
}

// Violation records a failing case. Within one scope (one rapid.Check) the last
// one recorded wins: rapid replays the shrunk case last, so that is the minimal one.
func (c *Collector) Violation(prop, check, scope, signature, failure, foundBy string, cs any) {
	c.mu.Lock()
	c.seq++
	c.violations[scope] = &ViolationRec{Property: prop, Check: check, Scope: scope, Signature: signature,
		Failure: failure, FoundBy: foundBy, Seed: EnvSeed(), Shard: EnvShard(), Case: cs, seq: c.seq}
	c.mu.Unlock()
}

func EnvInt(name string, def int) int {
	if s := os.Getenv(name); s != "" {
		if n, err := strconv.Atoi(s); err == nil {
			return n
		}
	}
	return def
}
func EnvShard() int   { return EnvInt("VERIF_SHARD", 0) }
func EnvNShards() int { return max(1, EnvInt("VERIF_NSHARDS", 1)) }
func EnvTier() string {
	if t := os.Getenv("VERIF_TIER"); t != "" {
		return t
	}
	return "quick"
}
func Thorough() bool { return EnvTier() == "thorough" }
func EnvSeed() uint64 {
	if s := os.Getenv("VERIF_SHARD_SEED"); s != "" {
		if n, err := strconv.ParseUint(s, 10, 64); err == nil {
			return n
		}
	}
	return 1
}

// MyShare reports whether item i of a partitioned work list belongs to this shard.
func MyShare(i int) bool { return i%EnvNShards() == EnvShard() }

// Flush writes the shard's evidence to $VERIF_OUT (JSON) and its non-trivial
// case hashes to $VERIF_OUT.hashes (binary, 8 bytes each).
func (c *Collector) Flush(exitCode int) {
	out := os.Getenv("VERIF_OUT")
	if out == "" {
		return
	}
	c.mu.Lock()
	defer c.mu.Unlock()
	hb := make([]byte, 0, 8*len(c.nontrivial))
	for h := range c.nontrivial {
		hb = binary.LittleEndian.AppendUint64(hb, h)
	}
	_ = os.WriteFile(out+".hashes", hb, 0o644)
	progs := make([]string, 0, len(c.Programs))
	for p := range c.Programs {
		progs = append(progs, p)
	}
	sort.Strings(progs)
	viols := make([]*ViolationRec, 0, len(c.violations))
	for _, v := range c.violations {
		viols = append(viols, v)
	}
	sort.Slice(viols, func(i, j int) bool { return viols[i].seq < viols[j].seq })
	doc := map[string]any{
		"shard":           EnvShard(),
		"seed":            EnvSeed(),
		"evaluations":     c.Evals,
		"nontrivial":      len(c.nontrivial),
		"bulk_nontrivial": c.bulkNT,
		"classes":         c.Classes,
		"samples":         c.Samples,
		"programs":        progs,
		"extra":           c.Extra,
		"exhaustive":      c.Exhaustive,
		"violations":      viols,
		"broken":          c.Broken,
		"exit":            exitCode,
		"wall_s":          time.Since(c.start).Seconds(),
	}
	b, err := json.Marshal(doc)
	if err != nil {
		fmt.Fprintln(os.Stderr, "collector: marshal:", err)
		b = []byte(`{"broken":["collector marshal failed"]}`)
	}
	_ = os.WriteFile(out, b, 0o644)
}
