package harness

// Loader for the PINNED protocol schema (/verif/schema/*.json). The snapshot is
// data committed under /verif; it is never re-derived from /repo by a check.

import (
	"encoding/json"
	"fmt"
	"os"
	"path/filepath"
	"sort"
	"strings"
)

type Field struct {
	Go     string `json:"go"`
	JSON   string `json:"json,omitempty"`
	Kind   string `json:"kind"` // num fixtext text numlist fixtextlist textlist objlist obj objval dyn len checksum
	NType  string `json:"ntype,omitempty"`
	Width  int    `json:"width,omitempty"`
	Pad    int    `json:"pad"`
	Left   bool   `json:"left,omitempty"`
	Prefix string `json:"prefix,omitempty"`
	Count  string `json:"count,omitempty"`
	Elem   string `json:"elem,omitempty"`
	Table  string `json:"table,omitempty"`
	Disc   string `json:"disc,omitempty"`
	NilEnc string `json:"nil_on_encode,omitempty"`
	Algo   string `json:"algo,omitempty"`
}

type TypeSchema struct {
	Name        string  `json:"name"`
	File        string  `json:"file"`
	Ctor        string  `json:"ctor,omitempty"`
	Handwritten bool    `json:"handwritten,omitempty"`
	Endian      string  `json:"endian,omitempty"`
	Fields      []Field `json:"fields"`

	Module string `json:"-"`
	QName  string `json:"-"` // module.Name
	LE     bool   `json:"-"`
	index  map[string]int
}

func (t *TypeSchema) FieldIndex(goName string) int {
	if i, ok := t.index[goName]; ok {
		return i
	}
	return -1
}

// DynIndex returns the index of the dyn field of this type, or -1.
func (t *TypeSchema) DynIndex() int {
	for i, f := range t.Fields {
		if f.Kind == "dyn" {
			return i
		}
	}
	return -1
}

type Table struct {
	Name    string            `json:"name"`
	KeyType string            `json:"keytype"`
	Lookup  string            `json:"lookup"`
	Entries map[string]string `json:"entries"`
	Order   []string          `json:"order"`

	Module string `json:"-"`
	QName  string `json:"-"`
}

// TypeFor returns the qualified pinned type name for a key ("" if unregistered).
func (tb *Table) TypeFor(key string) string {
	if e, ok := tb.Entries[key]; ok {
		return tb.Module + "." + e
	}
	return ""
}

type ModuleSchema struct {
	Module string        `json:"module"`
	Dir    string        `json:"dir"`
	Pkg    string        `json:"pkg"`
	Import string        `json:"import"`
	Endian string        `json:"endian"`
	Source string        `json:"source"`
	Types  []*TypeSchema `json:"types"`
	Tables []*Table      `json:"tables"`
}

var (
	Modules   = map[string]*ModuleSchema{}
	Types     = map[string]*TypeSchema{}
	TypeNames []string // sorted, stable
	Tables    = map[string]*Table{}
	TableList []*Table
	ModuleIDs = []string{"sse", "szse", "bjse", "risk", "sample"}
)

func VerifRoot() string {
	if r := os.Getenv("VERIF_ROOT"); r != "" {
		return r
	}
	return "/verif"
}

func LoadSchema() error {
	if len(Types) > 0 {
		return nil
	}
	for _, m := range ModuleIDs {
		b, err := os.ReadFile(filepath.Join(VerifRoot(), "schema", m+".json"))
		if err != nil {
			return err
		}
		ms := &ModuleSchema{}
		if err := json.Unmarshal(b, ms); err != nil {
			return fmt.Errorf("%s: %w", m, err)
		}
		Modules[m] = ms
		for _, t := range ms.Types {
			t.Module = m
			t.QName = m + "." + t.Name
			e := ms.Endian
			if t.Endian != "" {
				e = t.Endian
			}
			t.LE = e == "LE"
			t.index = map[string]int{}
			for i, f := range t.Fields {
				t.index[f.Go] = i
			}
			Types[t.QName] = t
			TypeNames = append(TypeNames, t.QName)
		}
		for _, tb := range ms.Tables {
			tb.Module = m
			tb.QName = m + "." + tb.Name
			Tables[tb.QName] = tb
			TableList = append(TableList, tb)
		}
	}
	sort.Strings(TypeNames)
	sort.Slice(TableList, func(i, j int) bool { return TableList[i].QName < TableList[j].QName })
	return nil
}

// TableOf returns the table consulted by a dyn field of type t.
func TableOf(t *TypeSchema, f *Field) *Table { return Tables[t.Module+"."+f.Table] }

func NSize(ntype string) int {
	ntype = strings.TrimPrefix(ntype, "def-") // "def-uint16": a defined type whose underlying type is uint16
	switch ntype {
	case "int8", "uint8", "byte":
		return 1
	case "int16", "uint16":
		return 2
	case "int32", "uint32", "float32":
		return 4
	case "int64", "uint64", "float64":
		return 8
	}
	panic("unknown numeric type " + ntype)
}

func NMask(ntype string) uint64 {
	s := NSize(ntype)
	if s == 8 {
		return ^uint64(0)
	}
	return (uint64(1) << (8 * uint(s))) - 1
}

// IsFrame reports whether the type is one of the five protocol frames.
func (t *TypeSchema) IsFrame() bool {
	switch t.QName {
	case "sse.SseBinary", "szse.SzseBinary", "bjse.BjseBinary", "risk.RcBinary", "sample.RootPacket":
		return true
	}
	return false
}
