package harness

// Glue between rapid, the oracles and the collector.

import (
	"bytes"
	"encoding/json"
	"flag"
	"fmt"
	"os"
	"path/filepath"
	"runtime/debug"
	"sort"
	"testing"

	"pgregory.net/rapid"
)

// Failure is what an oracle returns when the property does not hold on a case.
type Failure struct {
	Signature string // where/how it failed: "<ID>/<type or primitive>/<kind>"
	Msg       string
}

func failf(sig, format string, a ...any) *Failure {
	f := &Failure{Signature: sig, Msg: fmt.Sprintf(format, a...)}
	if encodeNote != "" {
		f.Msg += " " + encodeNote
		encodeNote = ""
	}
	return f
}

// Replayers: check name -> oracle on a stored case. Filled by init() of each cNN file.
var Replayers = map[string]func(raw json.RawMessage) (*Failure, error){}

func registerReplay[C any](check string, oracle func(*C) *Failure) {
	Replayers[check] = func(raw json.RawMessage) (*Failure, error) {
		c := new(C)
		if err := json.Unmarshal(raw, c); err != nil {
			return nil, err
		}
		return oracle(c), nil
	}
}

// RProp is one rapid property (a case generator and its oracle) under a name. The same closure is driven by
// rapid.Check (random search with shrinking) in the quick/thorough tiers and by the native coverage-guided fuzzing
// engine through rapid.MakeFuzz in the thorough tier (FuzzRapid): there the fuzzer's bytes are the generator's
// choice sequence, so coverage feedback from the library under test steers the structured generator.
type RProp struct {
	Prop, Check, Scope string
	Run                func(rt *rapid.T)
}

// RapidProps: property id -> all of its rapid properties over all types (filled by init() of each cNN file).
var RapidProps = map[string]func() []RProp{}

func FuzzMode() bool { return os.Getenv("VERIF_FUZZ") != "" }

func MkProp[C any](prop, check, scope string, draw func(rt *rapid.T) *C, oracle func(*C) *Failure) RProp {
	return RProp{Prop: prop, Check: check, Scope: scope, Run: func(rt *rapid.T) {
		c := draw(rt)
		if c == nil {
			return
		}
		if f := oracle(c); f != nil {
			by := "rapid"
			if FuzzMode() {
				by = "gofuzz+rapid"
				writeFuzzViolation(prop, check, scope, f, c)
			}
			Col.Violation(prop, check, scope, f.Signature, f.Msg, by, c)
			rt.Fatalf("%s: %s", f.Signature, f.Msg)
		}
	}}
}

// writeFuzzViolation stores the failing case at once (a fuzz worker may be killed before it can flush); the
// driver keeps the smallest one.
func writeFuzzViolation(prop, check, scope string, f *Failure, c any) {
	wd := os.Getenv("VERIF_WORK")
	if wd == "" {
		return
	}
	rec := ViolationRec{Property: prop, Check: check, Scope: "gofuzz/" + scope, Signature: f.Signature, Failure: f.Msg, FoundBy: "gofuzz+rapid", Case: c}
	b, _ := json.Marshal(rec)
	_ = os.WriteFile(filepath.Join(wd, fmt.Sprintf("fuzzviol.%s.%d.json", prop, len(b))), b, 0o644)
}

// CheckProp runs one rapid property: draw produces a case, oracle judges it.
func CheckProp[C any](t *testing.T, prop, check, scope string, draw func(rt *rapid.T) *C, oracle func(*C) *Failure) {
	t.Helper()
	rapid.Check(t, MkProp(prop, check, scope, draw, oracle).Run)
}

// WithChecks runs fn with rapid's -rapid.checks set to n (a property made of many per-type sub-properties beside a
// cheap primitive-level one needs a different budget per part).
func WithChecks(n int, fn func()) {
	fl := flag.Lookup("rapid.checks")
	if fl == nil {
		fn()
		return
	}
	old := fl.Value.String()
	_ = flag.Set("rapid.checks", fmt.Sprint(n))
	defer func() { _ = flag.Set("rapid.checks", old) }()
	fn()
}

// RunProps runs each property as a sub-test under rapid.Check.
func RunProps(t *testing.T, props []RProp) {
	for _, p := range props {
		p := p
		t.Run(p.Scope, func(t *testing.T) { rapid.Check(t, p.Run) })
	}
}

// Direct judges one enumerated (non-rapid) case.
func Direct[C any](t *testing.T, prop, check, scope string, c *C, oracle func(*C) *Failure) bool {
	if f := oracle(c); f != nil {
		Col.Violation(prop, check, scope, f.Signature, f.Msg, "enumeration", c)
		t.Errorf("%s: %s", f.Signature, f.Msg)
		return false
	}
	return true
}

// safely runs a library call and converts a panic into a value.
func safely(f func() error) (err error, panicked any, stack string) {
	defer func() {
		if r := recover(); r != nil {
			panicked = r
			stack = string(debug.Stack())
			if len(stack) > 1500 {
				stack = stack[:1500]
			}
		}
	}()
	err = f()
	return
}

// recycledBuf: a buffer that has been used, overwritten and Reset - its spare capacity holds earlier (non-zero) bytes,
// as the send buffer of any long-running session does. encodeNote: remark attached to the next reported failure.
var (
	recycledBuf   bytes.Buffer
	recycledCalls int
	encodeNote    string
)

// LibEncode encodes a GV with the library into a fresh buffer - and (single-goroutine checks, moderate sizes) once more,
// from a second object built from the same value, into a recycled buffer, on alternate calls with a read offset > 0.
// Encoding depends only on the message (C06), so both must agree; if they do not, the caller gets the recycled
// buffer's result, which its own oracle then judges (the failure message says so).
func LibEncode(v *Value) (out []byte, obj any, err error, panicked any) {
	obj = ToStruct(v)
	var buf bytes.Buffer
	err, panicked, _ = safely(func() error { return EncodeAny(obj, &buf) })
	out = append([]byte{}, buf.Bytes()...)
	scribble(&buf)
	if Col.Property == "C19" || Col.Property == "C20" {
		return out, obj, err, panicked // called from parallel goroutines there: no shared harness state
	}
	encodeNote = ""
	if panicked != nil || err != nil || len(out) > 256<<10 {
		return out, obj, err, panicked
	}
	if recycledBuf.Cap() == 0 || recycledBuf.Cap() > 4<<20 {
		recycledBuf = bytes.Buffer{}
		recycledBuf.Grow(512)
		scribble(&recycledBuf)
	}
	recycledCalls++
	skip := 0
	if recycledCalls%2 == 0 {
		recycledBuf.WriteString("sent")
		recycledBuf.Next(3)
		skip = 1
	}
	obj2 := ToStruct(v)
	err2, pan2, _ := safely(func() error { return EncodeAny(obj2, &recycledBuf) })
	out2 := append([]byte{}, recycledBuf.Bytes()[min(skip, recycledBuf.Len()):]...)
	scribble(&recycledBuf)
	if pan2 != nil || err2 != nil || !bytes.Equal(out, out2) {
		Col.Class("two encodes of one value differ (fresh vs recycled buffer)", 1)
		// two encodes of one value disagree: hand the caller the odd one, so that its own oracle judges it. Which one is
		// odd is decided by the interpreter's rendering where it has one (selection only; nothing is judged here).
		oddIsFresh := false
		if pan2 == nil && err2 == nil {
			if r := Render(v, nil); !r.MustError && !r.MayError && bytes.Equal(out2, r.Bytes) && !bytes.Equal(out, r.Bytes) {
				oddIsFresh = true
			}
		}
		if oddIsFresh {
			encodeNote = fmt.Sprintf("[the same value encoded again into a recycled buffer gives %d bytes instead of these %d, first difference at %d: encoding is not repeatable]", len(out2), len(out), firstDiff(out, out2))
			return out, obj, err, panicked
		}
		encodeNote = fmt.Sprintf("[the bytes judged here were encoded into a recycled buffer (used before, Reset, spare capacity holding earlier bytes%s); into a fresh buffer the same value gives %d bytes, first difference at %d, err=%v panic=%v]", map[int]string{0: "", 1: ", one unread byte in front"}[skip], len(out), firstDiff(out, out2), err2, pan2)
		return out2, obj2, err2, pan2
	}
	return out, obj, err, panicked
}

// scribble overwrites the whole backing array of a buffer the harness handed to the library and is done with:
// if the library kept a reference into it (a cache of "constant" frames, a zero-copy view), that reference now
// reads garbage and the next comparison shows it.
func scribble(buf *bytes.Buffer) {
	b := buf.Bytes()
	b = b[:cap(b)]
	for i := range b {
		b[i] = 0xD5 ^ byte(i)
	}
	buf.Reset()
}

// LibDecode decodes b with the library into a fresh object of the type.
func LibDecode(typeName string, b []byte) (v *Value, rest []byte, err error, panicked any) {
	return LibDecodeInto(regByName[typeName].New(), typeName, b)
}

// LibDecodeInto decodes b into the given receiver. The bytes sit in a buffer the harness owns; once the decoder
// has returned, the whole backing array is overwritten BEFORE the message is read out of the struct: a decoder
// that kept views of the input instead of copies (C16) shows up as a wrong value in whichever check called this.
func LibDecodeInto(obj any, typeName string, b []byte) (v *Value, rest []byte, err error, panicked any) {
	in := append(make([]byte, 0, len(b)+8), b...)
	buf := bytes.NewBuffer(in)
	err, panicked, _ = safely(func() error { return DecodeAny(obj, buf) })
	rest = append([]byte{}, buf.Bytes()...)
	in = in[:cap(in)]
	for i := range in {
		in[i] = 0xC9 ^ byte(i*7)
	}
	if err != nil || panicked != nil {
		return nil, rest, err, panicked
	}
	v, cerr := FromStruct(obj, typeName)
	if cerr != nil {
		return nil, rest, fmt.Errorf("decoded object not representable: %w", cerr), nil
	}
	return v, rest, nil, nil
}

// UsedReceiver returns an object of the type that has already decoded the encoding of prior (nil prior: fresh).
func UsedReceiver(typeName string, prior *Value) any {
	obj := regByName[typeName].New()
	if prior != nil {
		if r := Render(prior, nil); !r.MustError {
			_, _, _ = safely(func() error { return DecodeAny(obj, bytes.NewBuffer(append([]byte{}, r.Bytes...))) })
		}
	}
	return obj
}

func hexClip(b []byte) string {
	if len(b) > 96 {
		return fmt.Sprintf("%x…(%d bytes)", b[:96], len(b))
	}
	return fmt.Sprintf("%x", b)
}

func firstDiff(a, b []byte) int {
	n := min(len(a), len(b))
	for i := 0; i < n; i++ {
		if a[i] != b[i] {
			return i
		}
	}
	if len(a) != len(b) {
		return n
	}
	return -1
}

// ReplayRegress re-judges the committed regression cases of a property
// (/verif/regress/<ID>/*.json: minimised failures found earlier, incl. those of
// repaired defects). Runs on shard 0 only.
func ReplayRegress(t *testing.T, prop string) {
	if EnvShard() != 0 {
		return
	}
	files, _ := filepath.Glob(filepath.Join(VerifRoot(), "regress", prop, "*.json"))
	sort.Strings(files)
	for _, path := range files {
		b, err := os.ReadFile(path)
		if err != nil {
			Col.BrokenHarness(err.Error())
			continue
		}
		var rec struct {
			Check string          `json:"check"`
			Case  json.RawMessage `json:"case"`
		}
		if err := json.Unmarshal(b, &rec); err != nil || Replayers[rec.Check] == nil {
			Col.BrokenHarness("regression case " + path + " unusable")
			continue
		}
		f, err := Replayers[rec.Check](rec.Case)
		if err != nil {
			Col.BrokenHarness("regression case " + path + ": " + err.Error())
			continue
		}
		Col.Case(Hash64([]byte(path), rec.Case), true, "regression-corpus")
		if f != nil {
			var cs any
			_ = json.Unmarshal(rec.Case, &cs)
			Col.Violation(prop, rec.Check, "regress/"+filepath.Base(path), f.Signature, f.Msg, "regression-corpus", cs)
			t.Errorf("%s: %s: %s", filepath.Base(path), f.Signature, f.Msg)
		}
	}
}
