package harness

// C09, "in time proportional to the input size": a scaling experiment per variable-length field.
//
// For every prefixed field reachable in every type (top level, nested parts, object-list elements, every body /
// extension type) the same message is rendered with n and with F*n elements (bytes for texts) and offered to the
// decoder valid, truncated by one byte, with an overstated count, and cut in the middle. The decoder's time on the big input may be
// at most scaleTol x F x its time on the small one. A decoder whose work per element grows with the number of
// elements (re-scanning or copying what is left per element, duplicate checks, quadratic joins) has a ratio near F
// x F. Wall-clock time is the observable the property names; to keep the oracle from flaking, the minimum over several
// repetitions is used, nothing is judged below an absolute floor, and a suspicious ratio is re-measured with more
// repetitions after a pause before it counts.

import (
	"bytes"
	"fmt"
	"runtime"
	"testing"
	"time"
)

const (
	scaleFactor = 16
	scaleTol    = 8.0                   // allowed t(F*n) / (F * t(n)); linear decoders measure 0.6..2
	scaleFloor  = 20 * time.Microsecond // t(n) is taken as at least this
	scaleMinBig = 8 * time.Millisecond  // nothing is judged unless the big input takes longer than this
)

type CaseC09Scale struct {
	Msg     CaseC18Msg `json:"msg"` // N is the small size
	Variant string     `json:"variant"`
}

func scaleInput(c *CaseC09Scale, n int) ([]byte, bool) {
	m := c.Msg
	m.N = n
	v, max, ok := c18Build(&m)
	if !ok || uint64(n) > max {
		return nil, false
	}
	r := Render(v, &RenderOpts{Spans: true})
	if r.MustError {
		return nil, false
	}
	w := r.Bytes
	switch c.Variant {
	case "valid":
	case "truncated":
		if len(w) == 0 {
			return nil, false
		}
		w = w[:len(w)-1]
	case "half":
		w = w[:len(w)/2]
	case "overstated":
		// the count/length of the blown-up field claims the maximum
		done := false
		for _, sp := range r.Spans {
			if (sp.Kind == "count" || sp.Kind == "prefix") && !done && sp.Off+sp.Len <= len(w) && getUint(w[sp.Off:], sp.Len, Types[c.Msg.Type].LE) == uint64(n) && sp.Max > uint64(n) {
				w = append([]byte{}, w...)
				copy(w[sp.Off:], putUint(nil, sp.Max, sp.Len, Types[c.Msg.Type].LE))
				done = true
			}
		}
		if !done {
			return nil, false
		}
	default:
		return nil, false
	}
	return w, true
}

func decodeMinTime(tn string, w []byte, reps int) (best time.Duration, pan any) {
	best = time.Duration(1<<62 - 1)
	for i := 0; i < reps; i++ {
		obj := regByName[tn].New()
		buf := bytes.NewBuffer(append([]byte{}, w...))
		t0 := time.Now()
		_, p, _ := safely(func() error { return DecodeAny(obj, buf) })
		d := time.Since(t0)
		if p != nil {
			return d, p
		}
		if d < best {
			best = d
		}
	}
	return best, nil
}

func oracleC09Scale(c *CaseC09Scale) *Failure {
	small, ok1 := scaleInput(c, c.Msg.N)
	big, ok2 := scaleInput(c, c.Msg.N*scaleFactor)
	if !ok1 || !ok2 {
		Col.BrokenHarness(fmt.Sprintf("C09 scaling case cannot be built: %s.%s n=%d %s", c.Msg.Type, c18PathString(&c.Msg), c.Msg.N, c.Variant))
		return nil
	}
	sig := "C09/" + c.Msg.Type + "." + c18PathString(&c.Msg) + "/superlinear-time"
	armCase("C09", "c09scale", c.Msg.Type, "C09/"+c.Msg.Type+"/abort-or-hang", c)
	defer disarmCase()
	measure := func(reps int) (ts, tb time.Duration, ratio float64, pan any) {
		ts, pan = decodeMinTime(c.Msg.Type, small, reps)
		if pan != nil {
			return
		}
		caseStartNano.Store(time.Now().UnixNano()) // the watchdog limit applies per call, not to the whole experiment
		tb, pan = decodeMinTime(c.Msg.Type, big, reps)
		caseStartNano.Store(time.Now().UnixNano())
		ratio = float64(tb) / (scaleFactor * float64(max(ts, scaleFloor)))
		return
	}
	ts, tb, ratio, pan := measure(5)
	if pan != nil {
		return failf("C09/"+c.Msg.Type+"/panic", "Decode panicked on a %s input with %d / %d entries in %s: %v", c.Variant, c.Msg.N, c.Msg.N*scaleFactor, c18PathString(&c.Msg), pan)
	}
	if tb > scaleMinBig {
		Col.MaxExtra("max_time_ratio_big_vs_16x_small(inputs slower than 8ms)", ratio)
	}
	Col.MaxExtra("max_single_decode_ms", float64(tb)/1e6)
	if ratio > scaleTol && tb > scaleMinBig {
		// re-measure before believing it: pause, collect garbage, three times the repetitions
		time.Sleep(150 * time.Millisecond)
		runtime.GC()
		ts, tb, ratio, pan = measure(15)
		if pan == nil && ratio > scaleTol && tb > scaleMinBig {
			return failf(sig, "%s input: %d bytes (%d entries) decode in %v, %d bytes (%d entries) in %v: %.1f times the proportional time (allowed %.0f); decoding time grows faster than the input",
				c.Variant, len(small), c.Msg.N, ts, len(big), c.Msg.N*scaleFactor, tb, ratio, scaleTol)
		}
		Col.Class("scaling:suspicious-ratio-not-confirmed-by-re-measurement", 1)
	}
	return nil
}

func init() { registerReplay("c09scale", oracleC09Scale) }

// c09Scaling enumerates the experiment over every prefixed field of every type of this shard.
func c09Scaling(t *testing.T) {
	for _, tn := range MyTypes() {
		ts := Types[tn]
		nkeys := 1
		if di := ts.DynIndex(); di >= 0 {
			nkeys = len(TableOf(ts, &ts.Fields[di]).Order)
		}
		seen := map[string]bool{}
		for k := 0; k < nkeys; k++ {
			sk := Skeleton(tn, k)
			var targets []c18Target
			c18Targets(sk, nil, &targets, 0)
			for _, tg := range targets {
				id := fmt.Sprint(tg.path, tg.field, tg.inner)
				if di := ts.DynIndex(); di >= 0 && sk.F[di].O != nil {
					id = sk.F[di].O.Type + id
				}
				if seen[id] {
					continue
				}
				seen[id] = true
				pmax := NMask(tg.ptype)
				if pmax < 4096 {
					continue // an 8-bit prefix cannot carry enough entries to measure anything
				}
				n := 4095 // 16 x 4095 = 65520 fits a 16-bit prefix
				if pmax > 1<<20 {
					n = 8192
				}
				for _, variant := range []string{"valid", "truncated", "overstated", "half"} {
					c := &CaseC09Scale{Msg: CaseC18Msg{Type: tn, Key: k, Path: tg.path, Field: tg.field, Inner: tg.inner, N: n}, Variant: variant}
					if _, ok := scaleInput(c, n); !ok {
						continue
					}
					nest := "top-level"
					if len(tg.path) > 0 {
						nest = "nested"
					}
					Col.Case(Hash64(JSONOf(c)), true, "scaling-experiment", "scaling:"+variant, "scaling:"+nest)
					Col.Program(tn)
					if Col.WantSample("scaling") {
						Col.Sample("scaling", c)
					}
					if !Direct(t, "C09", "c09scale", fmt.Sprintf("scale/%s/%d/%s/%s", tn, k, c18PathString(&c.Msg), variant), c, oracleC09Scale) {
						return
					}
				}
			}
		}
	}
	Col.MarkExhaustive("scaling experiment (n vs 16n entries; valid, truncated, half, overstated) for every 16/32-bit-prefixed text/list field of every type, at top level and nested through parts, object-list elements and every body/extension type")
}
