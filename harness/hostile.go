package harness

// Hostile inputs for the decoders (C09/C10): valid wire strings mutated
// structurally at positions located through the schema, and pure random bytes.
// Also the last-case file / watchdog used to attribute a process death or hang
// to the input that caused it.

import (
	"encoding/json"
	"fmt"
	"os"
	"path/filepath"
	"strings"
	"sync/atomic"
	"time"

	"pgregory.net/rapid"
)

// Skeleton: a value of the type in which every list has exactly one element and
// every nested/dynamic part is present (first registered key), so that every
// count/length prefix of the type occurs in its rendering.
func Skeleton(typeName string, keyIdx int) *Value {
	ts := Types[typeName]
	v := &Value{Type: typeName, F: make([]FV, len(ts.Fields))}
	for i, f := range ts.Fields {
		x := &v.F[i]
		switch f.Kind {
		case "fixtext":
			x.T = HexBytes{}
		case "text":
			x.T = HexBytes("t")
		case "numlist":
			x.NL = []uint64{1}
		case "fixtextlist", "textlist":
			x.TL = []HexBytes{HexBytes("e")}
		case "objlist":
			x.OL = []*Value{Skeleton(ts.Module+"."+f.Elem, 0)}
		case "obj", "objval":
			x.O = Skeleton(ts.Module+"."+f.Elem, 0)
		case "dyn":
			tb := TableOf(ts, &f)
			key := tb.Order[keyIdx%len(tb.Order)]
			setKey(v, ts, ts.FieldIndex(f.Disc), key)
			x.O = Skeleton(tb.TypeFor(key), 0)
		}
	}
	return v
}

func bytesOf(b byte, n int) []byte {
	out := make([]byte, n)
	for i := range out {
		out[i] = b
	}
	return out
}

var hostileConsts = []uint64{0xffffffffffffffff, 0xfffffffffffffffe, 0x7fffffffffffffff, 0x8000000000000000, 0x7fffffff, 0x80000000, 0x7ffffff0, 0xffff, 0xfffe, 0x8000, 0x7fff, 0x100, 0xff}

// mutateHostile applies one or more structural mutations to a valid rendering.
// Returns the bytes and a class label.
func mutateHostile(rt *rapid.T, r *Rendered, le bool, hint int) ([]byte, string, bool) {
	w := append([]byte{}, r.Bytes...)
	var prefixes, discs []Span
	for _, sp := range r.Spans {
		switch sp.Kind {
		case "count", "prefix", "len":
			prefixes = append(prefixes, sp)
		case "disc":
			discs = append(discs, sp)
		}
	}
	kinds := []string{"prefix", "prefix", "prefix", "truncate", "flip", "prefix+truncate", "flip+truncate", "splice"}
	if len(discs) > 0 {
		kinds = append(kinds, "disc", "disc", "disc+truncate")
	}
	kind := rapid.SampledFrom(kinds).Draw(rt, "mut")
	if len(w) == 0 {
		kind = "splice"
	}
	overclaim := false
	doPrefix := func() {
		if len(prefixes) == 0 {
			return
		}
		sp := prefixes[rapid.IntRange(0, len(prefixes)-1).Draw(rt, "which")]
		cur := getUint(w[sp.Off:sp.Off+sp.Len], sp.Len, le)
		var nv uint64
		pvMax := 6
		if hint > 0 {
			pvMax = 8
		}
		switch rapid.IntRange(0, pvMax).Draw(rt, "pv") {
		case 4: // a number that occurs as a constant in the source of the tree under test, and its neighbours
			if n, ok := dictNumber(rt, "pdict"); ok && rapid.Bool().Draw(rt, "usepdict") {
				nv = (n + uint64(rapid.SampledFrom([]int{0, 1, -1, 2}).Draw(rt, "pdn"))) & sp.Max
			} else {
				nv = rapid.Uint64().Draw(rt, "rnd") & sp.Max
			}
		case 7, 8: // not larger than what an earlier call in this process legitimately carried
			nv = uint64(rapid.IntRange(1, hint).Draw(rt, "le-hint")) & sp.Max
		case 5: // a power of two (products with an element width wrap in narrow arithmetic), +-1
			nv = (uint64(1) << uint(rapid.IntRange(0, 8*sp.Len-1).Draw(rt, "pow"))) + uint64(rapid.SampledFrom([]int{0, 0, 1, -1}).Draw(rt, "pm"))
			nv &= sp.Max
		case 6: // a multiple of 0x1000 / 0x100
			nv = (rapid.Uint64().Draw(rt, "mul") << uint(rapid.SampledFrom([]int{8, 12, 13, 16}).Draw(rt, "sh"))) & sp.Max
		case 0:
			nv = sp.Max
		case 1:
			nv = sp.Max - 1
		case 2:
			nv = cur + 1
		case 3:
			nv = rapid.SampledFrom(hostileConsts).Draw(rt, "const") & sp.Max
		default:
			nv = rapid.Uint64().Draw(rt, "rnd2") & sp.Max
		}
		copy(w[sp.Off:], putUint(nil, nv, sp.Len, le))
		if nv > cur {
			overclaim = true
		}
	}
	doTruncate := func() {
		if len(w) > 0 {
			w = w[:rapid.IntRange(0, len(w)-1).Draw(rt, "cut")]
		}
	}
	doFlip := func() {
		for k := rapid.IntRange(1, 4).Draw(rt, "nflips"); k > 0 && len(w) > 0; k-- {
			i := rapid.IntRange(0, len(w)-1).Draw(rt, "pos")
			w[i] ^= 1 << uint(rapid.IntRange(0, 7).Draw(rt, "bit"))
		}
	}
	doDisc := func() {
		sp := discs[rapid.IntRange(0, len(discs)-1).Draw(rt, "whichdisc")]
		var nb []byte
		switch rapid.IntRange(0, 5).Draw(rt, "dv") {
		case 0: // blank: all pad bytes (text keys) / zero
			nb = make([]byte, sp.Len)
			if strings.HasSuffix(sp.Path, "ApplId") {
				for i := range nb {
					nb[i] = byte(sp.Max)
				}
			}
		case 1:
			nb = make([]byte, sp.Len)
		case 2:
			nb = bytesOf(0xff, sp.Len)
		case 3: // digits, possibly behind a sign or with a number-syntax character (keys parsed as numbers)
			nb = make([]byte, sp.Len)
			for i := range nb {
				nb[i] = '0' + byte(rapid.IntRange(0, 9).Draw(rt, "digit"))
			}
			if rapid.Bool().Draw(rt, "signed") {
				nb[rapid.IntRange(0, sp.Len-1).Draw(rt, "spos")] = rapid.SampledFrom([]byte{'-', '+', '.', 'e', 'x', '_', ' '}).Draw(rt, "sch")
			}
		case 4: // one byte of the key replaced by the pad / a space / NUL
			nb = append([]byte{}, w[sp.Off:sp.Off+sp.Len]...)
			nb[rapid.IntRange(0, sp.Len-1).Draw(rt, "kpos")] = rapid.SampledFrom([]byte{' ', 0, byte(sp.Max), 0xff}).Draw(rt, "kb")
		default:
			nb = rapid.SliceOfN(rapid.Byte(), sp.Len, sp.Len).Draw(rt, "kraw")
			if wd, ok := dictWord(rt, "kdict"); ok && rapid.Bool().Draw(rt, "usekdict") {
				nb = refFixedWrite(wd, sp.Len, byte(sp.Max), false)
			}
		}
		copy(w[sp.Off:], nb)
	}
	switch kind {
	case "disc":
		doDisc()
	case "disc+truncate":
		doDisc()
		doTruncate()
	case "prefix":
		doPrefix()
		if rapid.Bool().Draw(rt, "second") {
			doPrefix()
		}
	case "truncate":
		doTruncate()
	case "flip":
		doFlip()
	case "prefix+truncate":
		doPrefix()
		doTruncate()
	case "flip+truncate":
		doFlip()
		doTruncate()
	case "splice":
		junk := rapid.SliceOfN(rapid.Byte(), 0, 48).Draw(rt, "junk")
		at := 0
		if len(w) > 0 {
			at = rapid.IntRange(0, len(w)).Draw(rt, "at")
		}
		w = append(append(append([]byte{}, w[:at]...), junk...), w[at:]...)
	}
	return w, kind, overclaim
}

// ---- last-case file and watchdog -------------------------------------------------

var (
	lastCaseFile  *os.File
	caseStartNano atomic.Int64
	watchdogOnce  atomic.Bool
)

func lastCasePath() string {
	wd := os.Getenv("VERIF_WORK")
	if wd == "" {
		return ""
	}
	if os.Getenv("VERIF_FUZZ") != "" {
		return filepath.Join(wd, fmt.Sprintf("lastcase.pid%d.json", os.Getpid()))
	}
	return filepath.Join(wd, fmt.Sprintf("lastcase.%d.json", EnvShard()))
}

// armCase records the case the library is about to be given, so that if the
// process dies or hangs inside the call the driver can name the input.
func armCase(prop, check, scope, signature string, cs any) {
	p := lastCasePath()
	if p == "" {
		return
	}
	if lastCaseFile == nil {
		f, err := os.OpenFile(p, os.O_RDWR|os.O_CREATE|os.O_TRUNC, 0o644)
		if err != nil {
			return
		}
		lastCaseFile = f
		startWatchdog()
	}
	b, _ := json.Marshal(ViolationRec{Property: prop, Check: check, Scope: scope, Signature: signature, Seed: EnvSeed(), Shard: EnvShard(), Case: cs,
		Failure: "the decoder did not return"})
	lastCaseFile.WriteAt(b, 0)
	lastCaseFile.Truncate(int64(len(b)))
	caseStartNano.Store(time.Now().UnixNano())
}

func disarmCase() {
	if lastCaseFile != nil {
		caseStartNano.Store(0)
		lastCaseFile.Truncate(0)
	}
}

const watchdogLimit = 20 * time.Second

func startWatchdog() {
	if watchdogOnce.Swap(true) {
		return
	}
	go func() {
		for {
			time.Sleep(500 * time.Millisecond)
			s := caseStartNano.Load()
			if s != 0 && time.Since(time.Unix(0, s)) > watchdogLimit {
				fmt.Fprintf(os.Stderr, "watchdog: a single library call has been running for more than %v; aborting this shard\n", watchdogLimit)
				os.Exit(3)
			}
		}
	}()
}
