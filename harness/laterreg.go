package harness

// Late registration: the 18 discriminator tables are filled from init() but their
// Registry…Factory functions are exported, so an application may add a message type
// of its own after the library has already been used. Keys used here are far from
// every pinned key and are never generated elsewhere.

import (
	"bytes"
	"errors"

	"github.com/xinchentechnote/fin-proto-go/codec"

	bjse "github.com/xinchentechnote/fin-proto-go/bjse-trade-bin/messages"
	risk "github.com/xinchentechnote/fin-proto-go/risk-bin/messages"
	sample "github.com/xinchentechnote/fin-proto-go/sample-bin/messages"
	sse "github.com/xinchentechnote/fin-proto-go/sse-bin/messages"
	szse "github.com/xinchentechnote/fin-proto-go/szse-bin/messages"
)

// AppPart: an application-defined part: one tag byte and four payload bytes.
type AppPart struct {
	Tag     byte
	Payload [4]byte
}

func (a *AppPart) Encode(buf *bytes.Buffer) error {
	buf.WriteByte(a.Tag)
	buf.Write(a.Payload[:])
	return nil
}
func (a *AppPart) Decode(buf *bytes.Buffer) error {
	var b [5]byte
	if n, _ := buf.Read(b[:]); n != 5 {
		return errors.New("AppPart: short")
	}
	a.Tag = b[0]
	copy(a.Payload[:], b[1:])
	return nil
}

const (
	lateKeyU32  = 0x7EED0000
	lateKeyU16  = 0xEED0
	lateKeyText = "~z~"
)

func newAppPart() codec.BinaryCodec { return &AppPart{} }

// lateRegister maps a table (module.RegistryXFactory) to a function that registers AppPart under the late key
// and returns the key in the table's textual form.
var lateRegister = map[string]func() string{
	"sse.RegistrySseBinaryMsgTypeFactory":   func() string { sse.RegistrySseBinaryMsgTypeFactory(lateKeyU32, newAppPart); return "2129461248" },
	"szse.RegistrySzseBinaryMsgTypeFactory": func() string { szse.RegistrySzseBinaryMsgTypeFactory(lateKeyU32, newAppPart); return "2129461248" },
	"bjse.RegistryBjseBinaryMsgTypeFactory": func() string { bjse.RegistryBjseBinaryMsgTypeFactory(lateKeyU32, newAppPart); return "2129461248" },
	"risk.RegistryRcBinaryMsgTypeFactory":   func() string { risk.RegistryRcBinaryMsgTypeFactory(lateKeyU32, newAppPart); return "2129461248" },
	"sample.RegistryRootPacketMsgTypeFactory": func() string {
		sample.RegistryRootPacketMsgTypeFactory(lateKeyU16, newAppPart)
		return "61136"
	},
	"szse.RegistryNewOrderApplIdFactory":         func() string { szse.RegistryNewOrderApplIdFactory(lateKeyText, newAppPart); return lateKeyText },
	"szse.RegistryExecutionConfirmApplIdFactory": func() string { szse.RegistryExecutionConfirmApplIdFactory(lateKeyText, newAppPart); return lateKeyText },
	"szse.RegistryExecutionReportApplIdFactory":  func() string { szse.RegistryExecutionReportApplIdFactory(lateKeyText, newAppPart); return lateKeyText },
	"bjse.RegistryNewOrderApplIdFactory":         func() string { bjse.RegistryNewOrderApplIdFactory(lateKeyText, newAppPart); return lateKeyText },
	"bjse.RegistryExecutionConfirmApplIdFactory": func() string { bjse.RegistryExecutionConfirmApplIdFactory(lateKeyText, newAppPart); return lateKeyText },
	"bjse.RegistryExecutionReportApplIdFactory":  func() string { bjse.RegistryExecutionReportApplIdFactory(lateKeyText, newAppPart); return lateKeyText },
	"bjse.RegistryQuoteApplIdFactory":            func() string { bjse.RegistryQuoteApplIdFactory(lateKeyText, newAppPart); return lateKeyText },
	"bjse.RegistryQuoteResponseApplIdFactory":    func() string { bjse.RegistryQuoteResponseApplIdFactory(lateKeyText, newAppPart); return lateKeyText },
	"bjse.RegistryQuoteStatusReportApplIdFactory": func() string {
		bjse.RegistryQuoteStatusReportApplIdFactory(lateKeyText, newAppPart)
		return lateKeyText
	},
	"bjse.RegistryAllegeQuoteApplIdFactory": func() string { bjse.RegistryAllegeQuoteApplIdFactory(lateKeyText, newAppPart); return lateKeyText },
	"bjse.RegistryTradeCaptureReportApplIdFactory": func() string {
		bjse.RegistryTradeCaptureReportApplIdFactory(lateKeyText, newAppPart)
		return lateKeyText
	},
	"bjse.RegistryTradeCaptureReportAckApplIdFactory": func() string {
		bjse.RegistryTradeCaptureReportAckApplIdFactory(lateKeyText, newAppPart)
		return lateKeyText
	},
	"bjse.RegistryTradeCaptureConfirmApplIdFactory": func() string {
		bjse.RegistryTradeCaptureConfirmApplIdFactory(lateKeyText, newAppPart)
		return lateKeyText
	},
}
