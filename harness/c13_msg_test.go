package harness

// C13 at message level: every fixed-width text field of every message type is an "N-byte field" of the property.
// The primitive is also reached through generated encoders/decoders, which may wrap it (clip, normalise, trim) —
// so the same reference is applied to the field's bytes inside whole messages.

import (
	"bytes"
	"fmt"

	"pgregory.net/rapid"
)

type CaseC13Msg struct {
	Type string `json:"type"`
	Dir  string `json:"dir"` // enc: arbitrary value -> the field's N bytes on the wire; dec: raw N bytes on the wire -> the field's value
	V    *Value `json:"v"`
}

func typeHasFixText(tn string, depth int) bool {
	if depth > 4 {
		return false
	}
	for _, f := range Types[tn].Fields {
		switch f.Kind {
		case "fixtext", "fixtextlist":
			return true
		case "obj", "objval", "objlist":
			if typeHasFixText(Types[tn].Module+"."+f.Elem, depth+1) {
				return true
			}
		}
	}
	return false
}

// diffFixText compares only the fixed-width text fields (and lists of them) of two values of one type.
func diffFixText(a, b *Value, path string) string {
	if a == nil || b == nil || a.Type != b.Type {
		return ""
	}
	for i, f := range Types[a.Type].Fields {
		p := path + "." + f.Go
		switch f.Kind {
		case "fixtext":
			if !bytes.Equal(a.F[i].T, b.F[i].T) {
				return fmt.Sprintf("%s (N=%d pad=%#x left=%v): library %q, reference %q", p, f.Width, f.Pad, f.Left, a.F[i].T, b.F[i].T)
			}
		case "fixtextlist":
			if len(a.F[i].TL) != len(b.F[i].TL) {
				continue // a count matter, not a fixed-text one
			}
			for j := range a.F[i].TL {
				if !bytes.Equal(a.F[i].TL[j], b.F[i].TL[j]) {
					return fmt.Sprintf("%s[%d] (N=%d pad=%#x left=%v): library %q, reference %q", p, j, f.Width, f.Pad, f.Left, a.F[i].TL[j], b.F[i].TL[j])
				}
			}
		case "obj", "objval", "dyn":
			if d := diffFixText(a.F[i].O, b.F[i].O, p); d != "" {
				return d
			}
		case "objlist":
			if len(a.F[i].OL) != len(b.F[i].OL) {
				continue
			}
			for j := range a.F[i].OL {
				if d := diffFixText(a.F[i].OL[j], b.F[i].OL[j], fmt.Sprintf("%s[%d]", p, j)); d != "" {
					return d
				}
			}
		}
	}
	return ""
}

func oracleC13Msg(c *CaseC13Msg) *Failure {
	sig := "C13/" + c.Type
	r := Render(c.V, &RenderOpts{Spans: true})
	if r.MustError || r.MayError {
		return nil
	}
	if c.Dir == "enc" {
		out, _, err, pan := LibEncode(c.V)
		if err != nil || pan != nil {
			return nil // C17 / C02
		}
		if len(out) != len(r.Bytes) {
			if !hasVariableParts(c.Type) {
				return failf(sig+"/field-width", "a message of fixed-size fields only was written as %d bytes; its fields add up to %d: some fixed-width text did not emit exactly N bytes", len(out), len(r.Bytes))
			}
			return nil // offsets are not comparable (C02 judges the whole layout)
		}
		for _, sp := range r.Spans {
			if sp.Kind != "fixtext" {
				continue
			}
			if got, want := out[sp.Off:sp.Off+sp.Len], r.Bytes[sp.Off:sp.Off+sp.Len]; !bytes.Equal(got, want) {
				return failf(sig+"/field-bytes", "%s (N=%d): the message encoder wrote %q, padding/cutting the value by the field's rule gives %q", sp.Path, sp.Len, got, want)
			}
		}
		return nil
	}
	want, n, perr := Parse(c.Type, r.Bytes)
	if perr != nil || n != len(r.Bytes) {
		return nil
	}
	got, _, err, pan := LibDecode(c.Type, r.Bytes)
	if err != nil || pan != nil {
		return nil // C02 / C09
	}
	if d := diffFixText(got, want, "$"); d != "" {
		return failf(sig+"/field-value", "decoded fixed-width text differs from 'the N bytes with only the pad byte stripped from the pad side': %s", d)
	}
	return nil
}

func init() {
	registerReplay("c13msg", oracleC13Msg)
	prev := RapidProps["C13"]
	RapidProps["C13"] = func() []RProp { return append(prev(), rpC13Msg(TypeNames)...) }
}

func rpC13Msg(types []string) (out []RProp) {
	for _, tn := range types {
		tn := tn
		if !typeHasFixText(tn, 0) && Types[tn].DynIndex() < 0 {
			continue
		}
		out = append(out, MkProp("C13", "c13msg", "msg/"+tn, func(rt *rapid.T) *CaseC13Msg {
			c := &CaseC13Msg{Type: tn, Dir: rapid.SampledFrom([]string{"enc", "dec"}).Draw(rt, "dir")}
			o := GenOpts{Mode: Arbitrary, MaxList: 12, NoAbsent: true}
			if c.Dir == "dec" {
				o.Mode = Wire
			}
			var ft *Features
			c.V, ft = GenValue(rt, tn, o)
			nt := ft.Overlong > 0 || ft.ShortText > 0 || ft.InteriorPad > 0 || ft.AllPad > 0 || ft.WireNonCanon > 0
			Col.Case(Hash64(JSONOf(c)), nt, "message-level", "message-level:"+c.Dir)
			Col.Program(tn)
			if nt && Col.WantSample("msg:"+c.Dir) && len(JSONOf(c)) < 1500 {
				Col.Sample("msg:"+c.Dir, c)
			}
			return c
		}, oracleC13Msg))
	}
	return
}
