package harness

// C04 — a frame's body-length field equals the number of body bytes emitted.
// C05 — a frame's checksum covers exactly that frame's bytes.
// Both run over generated buffer histories.

import (
	"bytes"
	"fmt"
	"testing"

	"pgregory.net/rapid"
)

type Op struct {
	Kind string   `json:"kind"` // write | encode | consume | drain | reencode
	Raw  HexBytes `json:"raw,omitempty"`
	V    *Value   `json:"v,omitempty"`
	K    int      `json:"k,omitempty"`   // consume: number of unread bytes to read away (clamped)
	Ref  int      `json:"ref,omitempty"` // reencode: index of an earlier encode op
}

type CaseHist struct {
	Ops []Op `json:"ops"`
}

var (
	lenFrames = []string{"sse.SseBinary", "szse.SzseBinary", "risk.RcBinary", "sample.RootPacket"}
	ckFrames  = []string{"sse.SseBinary", "szse.SzseBinary", "sample.RootPacket"}
)

// frameGeometry: header size (through the length field), offset of the length
// field, trailer size, per the pinned schema.
func frameGeometry(ts *TypeSchema) (lenOff, lenSize, header, trailer int, algo string) {
	off := 0
	di := ts.DynIndex()
	for i, f := range ts.Fields {
		if i == di {
			header = off
			off = 0
			continue
		}
		sz := 0
		switch f.Kind {
		case "num", "len", "checksum":
			sz = NSize(f.NType)
		case "fixtext":
			sz = f.Width
		default:
			panic("frame with variable header field")
		}
		if f.Kind == "len" {
			lenOff, lenSize = off, sz
		}
		if f.Kind == "checksum" {
			algo = f.Algo
		}
		off += sz
	}
	trailer = off
	return
}

// histApply runs the history against a real bytes.Buffer, calling judge at every frame encode.
func histApply(c *CaseHist, judge func(i int, op *Op, unreadBefore []byte, consumedBefore bool, obj any, err error, pan any, after []byte) *Failure) *Failure {
	buf := &bytes.Buffer{}
	consumed := false
	objs := map[int]any{}
	for i := range c.Ops {
		op := &c.Ops[i]
		switch op.Kind {
		case "write":
			buf.Write(op.Raw)
		case "consume":
			k := min(op.K, buf.Len())
			if k > 0 {
				buf.Next(k)
				consumed = true
			}
		case "drain":
			buf.Next(buf.Len())
			var one [1]byte
			buf.Read(one[:]) // empty read: bytes.Buffer resets itself
			consumed = false
		case "encode", "reencode":
			var obj any
			if op.Kind == "encode" {
				obj = ToStruct(op.V)
				objs[i] = obj
			} else {
				obj = objs[op.Ref]
				if obj == nil {
					continue
				}
			}
			before := append([]byte{}, buf.Bytes()...)
			err, pan, _ := safely(func() error { return EncodeAny(obj, buf) })
			if f := judge(i, op, before, consumed, obj, err, pan, buf.Bytes()); f != nil {
				return f
			}
		}
	}
	return nil
}

func oracleC04(c *CaseHist) *Failure {
	return histApply(c, func(i int, op *Op, before []byte, consumed bool, obj any, err error, pan any, after []byte) *Failure {
		if op.Kind != "encode" {
			return nil
		}
		ts := Types[op.V.Type]
		if !ts.IsFrame() || ts.FieldIndex("Body") < 0 && ts.FieldIndex("Payload") < 0 {
			return nil
		}
		hasLen := false
		for _, f := range ts.Fields {
			if f.Kind == "len" {
				hasLen = true
			}
		}
		if !hasLen {
			return nil
		}
		sig := "C04/" + ts.QName
		if pan != nil {
			return failf(sig+"/panic", "op %d: Encode panicked: %v", i, pan)
		}
		if err != nil {
			return nil // nothing emitted that the property speaks about
		}
		if len(after) < len(before) {
			return failf(sig+"/shrunk", "op %d: buffer shrank during Encode", i)
		}
		app := after[len(before):]
		lenOff, lenSize, header, trailer, _ := frameGeometry(ts)
		if len(app) < header+trailer {
			return failf(sig+"/short", "op %d: frame emitted only %d bytes, header+trailer need %d", i, len(app), header+trailer)
		}
		wire := getUint(app[lenOff:lenOff+lenSize], lenSize, ts.LE)
		bodyBytes := app[header : len(app)-trailer]
		if wire != uint64(len(bodyBytes)) {
			return failf(sig+"/wire-length", "op %d: length field on the wire says %d, %d body bytes follow (frame appended at offset %d of the unread region, stale caller value %d)",
				i, wire, len(bodyBytes), len(before), op.V.F[ts.FieldIndex(lenFieldName(ts))].N)
		}
		// body bytes are the body's own encoding
		bi := ts.DynIndex()
		if bv := op.V.F[bi].O; bv != nil {
			alone, _, e2, p2 := LibEncode(bv)
			if e2 == nil && p2 == nil && !bytes.Equal(alone, bodyBytes) {
				return failf(sig+"/body-bytes", "op %d: bytes between header and trailer (%d) are not the body's own encoding (%d bytes)", i, len(bodyBytes), len(alone))
			}
		} else if len(bodyBytes) != 0 {
			return failf(sig+"/absent-body", "op %d: absent body but %d body bytes emitted", i, len(bodyBytes))
		}
		// the object reports the same number
		got, cerr := FromStruct(obj, ts.QName)
		if cerr == nil {
			if n := got.F[ts.FieldIndex(lenFieldName(ts))].N; n != uint64(len(bodyBytes)) {
				return failf(sig+"/object-length", "op %d: after Encode the object reports length %d, %d body bytes were emitted", i, n, len(bodyBytes))
			}
		}
		return nil
	})
}

func lenFieldName(ts *TypeSchema) string {
	for _, f := range ts.Fields {
		if f.Kind == "len" {
			return f.Go
		}
	}
	return ""
}
func ckFieldName(ts *TypeSchema) string {
	for _, f := range ts.Fields {
		if f.Kind == "checksum" {
			return f.Go
		}
	}
	return ""
}

func oracleC05(c *CaseHist) *Failure {
	return histApply(c, func(i int, op *Op, before []byte, consumed bool, obj any, err error, pan any, after []byte) *Failure {
		if op.Kind != "encode" {
			return nil
		}
		ts := Types[op.V.Type]
		if ckFieldName(ts) == "" {
			return nil
		}
		sig := "C05/" + ts.QName
		if pan != nil {
			return failf(sig+"/panic", "op %d: Encode panicked: %v", i, pan)
		}
		if err != nil {
			return nil
		}
		if len(after) < len(before) {
			return failf(sig+"/shrunk", "op %d: buffer shrank during Encode", i)
		}
		app := after[len(before):]
		lenOff, lenSize, header, trailer, algo := frameGeometry(ts)
		if len(app) < header+trailer {
			return failf(sig+"/short", "op %d: frame emitted only %d bytes", i, len(app))
		}
		ckSize := NSize(ts.Fields[ts.FieldIndex(ckFieldName(ts))].NType)
		covered := app[:len(app)-ckSize]
		wire := getUint(app[len(app)-ckSize:], ckSize, ts.LE)
		want := refChecksum(algo, covered) & NMask(ts.Fields[ts.FieldIndex(ckFieldName(ts))].NType)
		if wire != want {
			whole := refChecksum(algo, append(append([]byte{}, before...), covered...))
			hint := ""
			if wire == whole && len(before) > 0 {
				hint = fmt.Sprintf(" — it equals the %s of the whole unread buffer (%d earlier bytes + this frame)", algo, len(before))
			}
			return failf(sig+"/checksum-span", "op %d: checksum on the wire %#x, %s over exactly this frame's %d bytes is %#x%s", i, wire, algo, len(covered), want, hint)
		}
		got, cerr := FromStruct(obj, ts.QName)
		if cerr == nil {
			cf := ts.Fields[ts.FieldIndex(ckFieldName(ts))]
			if n := got.F[ts.FieldIndex(cf.Go)].N & NMask(cf.NType); n != want {
				return failf(sig+"/object-checksum", "op %d: after Encode the object reports checksum %#x, the frame carries %#x", i, n, want)
			}
		}
		// exchange-side receiver: header, BodyLength bytes of body, trailer; verify
		L := getUint(app[lenOff:lenOff+lenSize], lenSize, ts.LE)
		if uint64(header)+L+uint64(trailer) != uint64(len(app)) {
			return failf(sig+"/receiver-framing", "op %d: a receiver that takes %d body bytes after the %d-byte header and a %d-byte trailer does not end at the frame's end (%d bytes emitted)", i, L, header, trailer, len(app))
		}
		return nil
	})
}

func init() {
	registerReplay("c04", oracleC04)
	registerReplay("c05", oracleC05)
}

// genFrame draws a frame value: any registered body (arbitrary contents) or an absent body.
func genFrame(rt *rapid.T, label string, frames []string, allowAbsent bool) (*Value, *Features) {
	ft := rapid.SampledFrom(frames).Draw(rt, label+".frame")
	o := DefaultOpts(Arbitrary)
	o.NoAbsent = true
	o.BigProb = 60
	o.MaxList = 3000
	v, feat := GenValue(rt, ft, o)
	ts := Types[ft]
	if allowAbsent && rapid.IntRange(0, 7).Draw(rt, label+".absent") == 0 {
		v.F[ts.DynIndex()].O = nil
		feat.Absent++
	}
	return v, feat
}

type histStats struct {
	offsetGT0, afterConsume, varBody, emptyBody, absentBody, staleLen, frames int
}

func genHistory(rt *rapid.T, frames []string, withReencode bool) (*CaseHist, *histStats) {
	c := &CaseHist{}
	st := &histStats{}
	unread, consumed := 0, false
	nops := rapid.IntRange(1, 8).Draw(rt, "nops")
	var encIdx []int
	for i := 0; i < nops; i++ {
		kinds := []string{"encode", "encode", "encode", "write", "consume", "consume", "drain"}
		if withReencode && len(encIdx) > 0 {
			kinds = append(kinds, "reencode", "reencode")
		}
		k := rapid.SampledFrom(kinds).Draw(rt, "op")
		if i == nops-1 {
			k = "encode"
		}
		switch k {
		case "write":
			raw := rapid.SliceOfN(rapid.Byte(), 1, 40).Draw(rt, "raw")
			c.Ops = append(c.Ops, Op{Kind: "write", Raw: raw})
			unread += len(raw)
		case "consume":
			if unread == 0 {
				continue
			}
			n := rapid.IntRange(1, unread).Draw(rt, "k")
			if rapid.IntRange(0, 3).Draw(rt, "odd") == 0 {
				n = min(unread, rapid.SampledFrom([]int{1, 3, 7}).Draw(rt, "koff"))
			}
			c.Ops = append(c.Ops, Op{Kind: "consume", K: n})
			unread -= n
			consumed = true
		case "drain":
			c.Ops = append(c.Ops, Op{Kind: "drain"})
			unread, consumed = 0, false
		case "reencode":
			c.Ops = append(c.Ops, Op{Kind: "reencode", Ref: rapid.SampledFrom(encIdx).Draw(rt, "ref")})
			unread += 1 // unknown exactly; only used for class accounting
		case "encode":
			v, feat := genFrame(rt, fmt.Sprintf("f%d", i), frames, true)
			c.Ops = append(c.Ops, Op{Kind: "encode", V: v})
			encIdx = append(encIdx, len(c.Ops)-1)
			st.frames++
			if unread > 0 {
				st.offsetGT0++
			}
			if consumed {
				st.afterConsume++
			}
			ts := Types[v.Type]
			body := v.F[ts.DynIndex()].O
			r := Render(v, nil)
			switch {
			case body == nil:
				st.absentBody++
			case len(Types[body.Type].Fields) == 0:
				st.emptyBody++
			case feat.ListNot1 > 0 || feat.TextOrList > 0 && bodyHasVar(body):
				st.varBody++
			}
			if li := ts.FieldIndex(lenFieldName(ts)); li >= 0 {
				if c2 := Computed(v); c2.F[li].N != v.F[li].N {
					st.staleLen++
				}
			}
			unread += len(r.Bytes)
		}
	}
	return c, st
}

func bodyHasVar(v *Value) bool {
	for _, f := range Types[v.Type].Fields {
		switch f.Kind {
		case "text", "numlist", "fixtextlist", "textlist", "objlist", "dyn":
			return true
		}
	}
	return false
}

func histRecord(c *CaseHist, st *histStats, prop string) {
	var cls []string
	add := func(n int, s string) {
		if n > 0 {
			cls = append(cls, s)
		}
	}
	add(st.offsetGT0, "frame-at-offset>0")
	add(st.afterConsume, "frame-after-partial-consume")
	add(st.varBody, "variable-length-body")
	add(st.emptyBody, "zero-length-body")
	add(st.absentBody, "absent-body")
	add(st.staleLen, "stale-length")
	if st.frames >= 2 {
		cls = append(cls, "frames>=2")
	}
	nt := st.offsetGT0 > 0 || st.afterConsume > 0
	if prop == "C04" {
		nt = nt || st.varBody > 0 || st.emptyBody > 0 || st.absentBody > 0 || st.staleLen > 0
	} else {
		nt = nt || st.staleLen > 0
	}
	Col.Case(Hash64(JSONOf(c)), nt, cls...)
	for _, op := range c.Ops {
		if op.V != nil {
			Col.Program(op.V.Type)
		}
	}
	if nt && Col.WantSample("history") && len(JSONOf(c)) < 3000 {
		Col.Sample("history", c)
	}
}

func TestC04(t *testing.T) {
	Col.Property = "C04"
	ReplayRegress(t, "C04")
	t.Run("histories", func(t *testing.T) {
		CheckProp(t, "C04", "c04", "histories", func(rt *rapid.T) *CaseHist {
			c, st := genHistory(rt, lenFrames, false)
			histRecord(c, st, "C04")
			return c
		}, oracleC04)
	})
}

func TestC05(t *testing.T) {
	Col.Property = "C05"
	ReplayRegress(t, "C05")
	t.Run("histories", func(t *testing.T) {
		CheckProp(t, "C05", "c05", "histories", func(rt *rapid.T) *CaseHist {
			c, st := genHistory(rt, ckFrames, false)
			histRecord(c, st, "C05")
			return c
		}, oracleC05)
	})
}
