package harness

// C04 — a frame's body-length field equals the number of body bytes emitted.
// C05 — a frame's checksum covers exactly that frame's bytes.
// Both run over generated buffer histories.

import (
	"bytes"
	"fmt"
	"testing"

	"pgregory.net/rapid"
)

type Op struct {
	Kind string   `json:"kind"`           // write | fill | encode | consume | drain | reencode | unreg
	Algo string   `json:"algo,omitempty"` // unreg: checksum service removed from the registry (restored after the case)
	Raw  HexBytes `json:"raw,omitempty"`
	V    *Value   `json:"v,omitempty"`
	K    int      `json:"k,omitempty"`   // consume: number of unread bytes to read away (clamped)
	Ref  int      `json:"ref,omitempty"` // reencode: index of an earlier encode op
}

type CaseHist struct {
	Ops []Op    `json:"ops"`
	Env []PreOp `json:"env,omitempty"` // process-wide settings in force during the history (GOMAXPROCS, log level, environment variable, reader-style checksum service, an earlier failing encode)
}

var (
	lenFrames = []string{"sse.SseBinary", "szse.SzseBinary", "risk.RcBinary", "sample.RootPacket"}
	ckFrames  = []string{"sse.SseBinary", "szse.SzseBinary", "sample.RootPacket"}
)

// frameGeometry: header size (through the length field), offset of the length
// field, trailer size, per the pinned schema.
func frameGeometry(ts *TypeSchema) (lenOff, lenSize, header, trailer int, algo string) {
	off := 0
	di := ts.DynIndex()
	for i, f := range ts.Fields {
		if i == di {
			header = off
			off = 0
			continue
		}
		sz := 0
		switch f.Kind {
		case "num", "len", "checksum":
			sz = NSize(f.NType)
		case "fixtext":
			sz = f.Width
		default:
			panic("frame with variable header field")
		}
		if f.Kind == "len" {
			lenOff, lenSize = off, sz
		}
		if f.Kind == "checksum" {
			algo = f.Algo
		}
		off += sz
	}
	trailer = off
	return
}

// histApply runs the history against a real bytes.Buffer, calling judge at every frame encode.
func histApply(c *CaseHist, judge func(i int, op *Op, unreadBefore []byte, consumedBefore bool, obj any, err error, pan any, after []byte) *Failure) *Failure {
	buf := &bytes.Buffer{}
	consumed := false
	objs := map[int]any{}
	restore := runPrelude(c.Env)
	defer func() { restore() }()
	for i := range c.Ops {
		op := &c.Ops[i]
		switch op.Kind {
		case "unreg":
			r := runPrelude([]PreOp{{Kind: "unreg", Algo: op.Algo}})
			prev := restore
			restore = func() { r(); prev() }
		case "cap": // the buffer starts out with this much capacity (e.g. a pooled or pre-grown buffer)
			if i == 0 {
				buf = bytes.NewBuffer(make([]byte, 0, op.K))
			}
		case "fill":
			buf.Write(bytes.Repeat([]byte{0x55}, op.K))
		case "write":
			buf.Write(op.Raw)
		case "consume":
			k := min(op.K, buf.Len())
			if k > 0 {
				buf.Next(k)
				consumed = true
			}
		case "drain":
			buf.Next(buf.Len())
			var one [1]byte
			buf.Read(one[:]) // empty read: bytes.Buffer resets itself
			consumed = false
		case "encode", "reencode":
			var obj any
			if op.Kind == "encode" {
				obj = ToStruct(op.V)
				objs[i] = obj
			} else {
				obj = objs[op.Ref]
				if obj == nil {
					continue
				}
			}
			before := append([]byte{}, buf.Bytes()...)
			err, pan, _ := safely(func() error { return EncodeAny(obj, buf) })
			if f := judge(i, op, before, consumed, obj, err, pan, buf.Bytes()); f != nil {
				return f
			}
		}
	}
	return nil
}

func oracleC04(c *CaseHist) *Failure {
	return histApply(c, func(i int, op *Op, before []byte, consumed bool, obj any, err error, pan any, after []byte) *Failure {
		if op.Kind != "encode" {
			return nil
		}
		ts := Types[op.V.Type]
		if !ts.IsFrame() || ts.FieldIndex("Body") < 0 && ts.FieldIndex("Payload") < 0 {
			return nil
		}
		hasLen := false
		for _, f := range ts.Fields {
			if f.Kind == "len" {
				hasLen = true
			}
		}
		if !hasLen {
			return nil
		}
		sig := "C04/" + ts.QName
		if pan != nil {
			return failf(sig+"/panic", "op %d: Encode panicked: %v", i, pan)
		}
		if err != nil {
			return nil // nothing emitted that the property speaks about
		}
		if len(after) < len(before) {
			return failf(sig+"/shrunk", "op %d: buffer shrank during Encode", i)
		}
		app := after[len(before):]
		lenOff, lenSize, header, trailer, _ := frameGeometry(ts)
		if len(app) < header+trailer {
			return failf(sig+"/short", "op %d: frame emitted only %d bytes, header+trailer need %d", i, len(app), header+trailer)
		}
		wire := getUint(app[lenOff:lenOff+lenSize], lenSize, ts.LE)
		bodyBytes := app[header : len(app)-trailer]
		if wire != uint64(len(bodyBytes)) {
			return failf(sig+"/wire-length", "op %d: length field on the wire says %d, %d body bytes follow (frame appended at offset %d of the unread region, stale caller value %d)",
				i, wire, len(bodyBytes), len(before), op.V.F[ts.FieldIndex(lenFieldName(ts))].N)
		}
		// body bytes are the body's own encoding
		bi := ts.DynIndex()
		if bv := op.V.F[bi].O; bv != nil {
			alone, _, e2, p2 := LibEncode(bv)
			if e2 == nil && p2 == nil && !bytes.Equal(alone, bodyBytes) {
				return failf(sig+"/body-bytes", "op %d: bytes between header and trailer (%d) are not the body's own encoding (%d bytes)", i, len(bodyBytes), len(alone))
			}
		} else if len(bodyBytes) != 0 {
			return failf(sig+"/absent-body", "op %d: absent body but %d body bytes emitted", i, len(bodyBytes))
		}
		// the object reports the same number
		got, cerr := FromStruct(obj, ts.QName)
		if cerr == nil {
			if n := got.F[ts.FieldIndex(lenFieldName(ts))].N; n != uint64(len(bodyBytes)) {
				return failf(sig+"/object-length", "op %d: after Encode the object reports length %d, %d body bytes were emitted", i, n, len(bodyBytes))
			}
		}
		return nil
	})
}

func lenFieldName(ts *TypeSchema) string {
	for _, f := range ts.Fields {
		if f.Kind == "len" {
			return f.Go
		}
	}
	return ""
}
func ckFieldName(ts *TypeSchema) string {
	for _, f := range ts.Fields {
		if f.Kind == "checksum" {
			return f.Go
		}
	}
	return ""
}

func oracleC05(c *CaseHist) *Failure {
	return histApply(c, func(i int, op *Op, before []byte, consumed bool, obj any, err error, pan any, after []byte) *Failure {
		if op.Kind != "encode" {
			return nil
		}
		ts := Types[op.V.Type]
		if ckFieldName(ts) == "" {
			return nil
		}
		sig := "C05/" + ts.QName
		if pan != nil {
			return failf(sig+"/panic", "op %d: Encode panicked: %v", i, pan)
		}
		if err != nil {
			return nil
		}
		if len(after) < len(before) {
			return failf(sig+"/shrunk", "op %d: buffer shrank during Encode", i)
		}
		app := after[len(before):]
		lenOff, lenSize, header, trailer, algo := frameGeometry(ts)
		if len(app) < header+trailer {
			return failf(sig+"/short", "op %d: frame emitted only %d bytes", i, len(app))
		}
		ckSize := NSize(ts.Fields[ts.FieldIndex(ckFieldName(ts))].NType)
		covered := app[:len(app)-ckSize]
		wire := getUint(app[len(app)-ckSize:], ckSize, ts.LE)
		want := refChecksum(algo, covered) & NMask(ts.Fields[ts.FieldIndex(ckFieldName(ts))].NType)
		if wire != want {
			whole := refChecksum(algo, append(append([]byte{}, before...), covered...))
			hint := ""
			if wire == whole && len(before) > 0 {
				hint = fmt.Sprintf(" — it equals the %s of the whole unread buffer (%d earlier bytes + this frame)", algo, len(before))
			}
			return failf(sig+"/checksum-span", "op %d: checksum on the wire %#x, %s over exactly this frame's %d bytes is %#x%s", i, wire, algo, len(covered), want, hint)
		}
		got, cerr := FromStruct(obj, ts.QName)
		if cerr == nil {
			cf := ts.Fields[ts.FieldIndex(ckFieldName(ts))]
			if n := got.F[ts.FieldIndex(cf.Go)].N & NMask(cf.NType); n != want {
				return failf(sig+"/object-checksum", "op %d: after Encode the object reports checksum %#x, the frame carries %#x", i, n, want)
			}
		}
		// exchange-side receiver: header, BodyLength bytes of body, trailer; verify
		L := getUint(app[lenOff:lenOff+lenSize], lenSize, ts.LE)
		if uint64(header)+L+uint64(trailer) != uint64(len(app)) {
			return failf(sig+"/receiver-framing", "op %d: a receiver that takes %d body bytes after the %d-byte header and a %d-byte trailer does not end at the frame's end (%d bytes emitted)", i, L, header, trailer, len(app))
		}
		return nil
	})
}

func init() {
	registerReplay("c04", oracleC04)
	registerReplay("c05", oracleC05)
}

// genFrame draws a frame value: any registered body (arbitrary contents) or an absent body.
func genFrame(rt *rapid.T, label string, frames []string, allowAbsent bool, big bool) (*Value, *Features) {
	ft := rapid.SampledFrom(frames).Draw(rt, label+".frame")
	o := DefaultOpts(Arbitrary)
	o.NoAbsent = true
	o.BigProb = 60
	o.MaxList = 3000
	if big {
		o.BigProb, o.MaxList = 2, 30000
	}
	v, feat := GenValue(rt, ft, o)
	ts := Types[ft]
	if allowAbsent && rapid.IntRange(0, 7).Draw(rt, label+".absent") == 0 {
		v.F[ts.DynIndex()].O = nil
		feat.Absent++
	} else if rapid.IntRange(0, 11).Draw(rt, label+".envelope") == 0 {
		// an envelope: another whole frame (with its own computed length) is the body of this one
		inner := rapid.SampledFrom(lenFrames).Draw(rt, label+".inner")
		io := DefaultOpts(Arbitrary)
		io.NoAbsent, io.BigProb, io.MaxList, io.HugeProb = true, 0, 40, 0
		v.F[ts.DynIndex()].O, _ = GenValue(rt, inner, io)
		feat.Mismatch++
	}
	return v, feat
}

type histStats struct {
	offsetGT0, afterConsume, varBody, emptyBody, absentBody, staleLen, frames, slide, bigFrame, unreg, midSlide, env int
}

func genHistory(rt *rapid.T, frames []string, withReencode bool, registry bool) (*CaseHist, *histStats) {
	c := &CaseHist{}
	st := &histStats{}
	unread, consumed := 0, false
	nops := rapid.IntRange(1, 8).Draw(rt, "nops")
	var encIdx []int
	// scenario: a large buffer almost entirely consumed, then a large frame (the buffer makes room by sliding
	// the unread bytes down inside the same array instead of reallocating)
	slide := rapid.IntRange(0, 7).Draw(rt, "slide") == 7
	if slide {
		fill := rapid.SampledFrom([]int{4096, 16384, 40000, 65536, 100000, 300000}).Draw(rt, "fill")
		keep := rapid.SampledFrom([]int{0, 1, 7, 100, 1000}).Draw(rt, "keep")
		c.Ops = append(c.Ops, Op{Kind: "fill", K: fill}, Op{Kind: "consume", K: fill - min(keep, fill)})
		unread, consumed = min(keep, fill), true
		st.slide++
	}
	// scenario: pre-sized buffer, written almost to the end and almost entirely consumed, so that the frame does
	// not fit the free tail but does fit after the unread bytes are slid down: the buffer moves its content in
	// the middle of this Encode without changing capacity
	midSlide := !slide && rapid.IntRange(0, 5).Draw(rt, "midslide") == 5
	midTarget := 0
	if midSlide {
		capC := rapid.SampledFrom([]int{256, 1024, 4096, 65536, 65536, 262144}).Draw(rt, "cap")
		keep := rapid.SampledFrom([]int{0, 1, 7, 60}).Draw(rt, "keep")
		var tail int
		if capC >= 65536 {
			tail = capC * rapid.IntRange(20, 45).Draw(rt, "tailpct") / 100
		} else {
			tail = rapid.IntRange(1, capC/2-keep-20).Draw(rt, "tail")
		}
		w := capC - tail
		c.Ops = append(c.Ops, Op{Kind: "cap", K: capC}, Op{Kind: "fill", K: w}, Op{Kind: "consume", K: w - keep})
		unread, consumed = keep, true
		hi := capC/2 - keep - 24
		if hi > tail {
			midTarget = tail + 1 + rapid.IntRange(0, hi-tail-1).Draw(rt, "into")
		}
		st.slide++
	}
	if rapid.IntRange(0, 5).Draw(rt, "envknob") == 5 {
		c.Env = append(c.Env, genEnvKnob(rt))
		if rapid.Bool().Draw(rt, "envfail") {
			c.Env = append(c.Env, PreOp{Kind: "encfail", Type: rapid.SampledFrom(frames).Draw(rt, "failframe"), K: rapid.SampledFrom([]int{0, 1, 28, 200}).Draw(rt, "failafter")})
		}
		st.env++
	}
	if registry && rapid.IntRange(0, 9).Draw(rt, "unreg") == 9 {
		c.Ops = append(c.Ops, Op{Kind: "unreg", Algo: rapid.SampledFrom(c14Algos).Draw(rt, "algo")})
		st.unreg++
	}
	for i := 0; i < nops; i++ {
		kinds := []string{"encode", "encode", "encode", "write", "consume", "consume", "drain"}
		if withReencode && len(encIdx) > 0 {
			kinds = append(kinds, "reencode", "reencode")
		}
		k := rapid.SampledFrom(kinds).Draw(rt, "op")
		if i == nops-1 {
			k = "encode"
		}
		switch k {
		case "write":
			raw := rapid.SliceOfN(rapid.Byte(), 1, 40).Draw(rt, "raw")
			c.Ops = append(c.Ops, Op{Kind: "write", Raw: raw})
			unread += len(raw)
		case "consume":
			if unread == 0 {
				continue
			}
			n := rapid.IntRange(1, unread).Draw(rt, "k")
			if rapid.IntRange(0, 3).Draw(rt, "odd") == 0 {
				n = min(unread, rapid.SampledFrom([]int{1, 3, 7}).Draw(rt, "koff"))
			}
			c.Ops = append(c.Ops, Op{Kind: "consume", K: n})
			unread -= n
			consumed = true
		case "drain":
			c.Ops = append(c.Ops, Op{Kind: "drain"})
			unread, consumed = 0, false
		case "reencode":
			c.Ops = append(c.Ops, Op{Kind: "reencode", Ref: rapid.SampledFrom(encIdx).Draw(rt, "ref")})
			unread += 1 // unknown exactly; only used for class accounting
		case "encode":
			big := slide && rapid.Bool().Draw(rt, "bigframe")
			v, feat := genFrame(rt, fmt.Sprintf("f%d", i), frames, true, big)
			if midTarget > 0 {
				if resizeFrameTo(v, midTarget) {
					st.midSlide++
				}
				midTarget = 0
			}
			c.Ops = append(c.Ops, Op{Kind: "encode", V: v})
			encIdx = append(encIdx, len(c.Ops)-1)
			st.frames++
			if unread > 0 {
				st.offsetGT0++
			}
			if consumed {
				st.afterConsume++
			}
			ts := Types[v.Type]
			body := v.F[ts.DynIndex()].O
			r := Render(v, nil)
			switch {
			case body == nil:
				st.absentBody++
			case len(Types[body.Type].Fields) == 0:
				st.emptyBody++
			case feat.ListNot1 > 0 || feat.TextOrList > 0 && bodyHasVar(body):
				st.varBody++
			}
			if li := ts.FieldIndex(lenFieldName(ts)); li >= 0 {
				if c2 := Computed(v); c2.F[li].N != v.F[li].N {
					st.staleLen++
				}
			}
			if len(r.Bytes) > 16384 {
				st.bigFrame++
			}
			unread += len(r.Bytes)
		}
	}
	return c, st
}

func bodyHasVar(v *Value) bool {
	for _, f := range Types[v.Type].Fields {
		switch f.Kind {
		case "text", "numlist", "fixtextlist", "textlist", "objlist", "dyn":
			return true
		}
	}
	return false
}

func histRecord(c *CaseHist, st *histStats, prop string) {
	var cls []string
	add := func(n int, s string) {
		if n > 0 {
			cls = append(cls, s)
		}
	}
	add(st.offsetGT0, "frame-at-offset>0")
	add(st.afterConsume, "frame-after-partial-consume")
	add(st.varBody, "variable-length-body")
	add(st.emptyBody, "zero-length-body")
	add(st.absentBody, "absent-body")
	add(st.staleLen, "stale-length")
	add(st.slide, "large-buffer-mostly-consumed")
	add(st.bigFrame, "frame>16KiB")
	add(st.unreg, "a-checksum-service-unregistered")
	add(st.env, "process-setting-varied(GOMAXPROCS/log-level/env/reader-style-service/earlier-failing-encode)")
	add(st.midSlide, "frame-sized-to-make-the-buffer-slide-during-encode")
	if st.slide > 0 && st.bigFrame > 0 {
		cls = append(cls, "big-frame-into-mostly-consumed-large-buffer")
	}
	if st.frames >= 2 {
		cls = append(cls, "frames>=2")
	}
	nt := st.offsetGT0 > 0 || st.afterConsume > 0
	if prop == "C04" {
		nt = nt || st.varBody > 0 || st.emptyBody > 0 || st.absentBody > 0 || st.staleLen > 0
	} else {
		nt = nt || st.staleLen > 0
	}
	Col.Case(Hash64(JSONOf(c)), nt, cls...)
	for _, op := range c.Ops {
		if op.V != nil {
			Col.Program(op.V.Type)
		}
	}
	if nt && Col.WantSample("history") && len(JSONOf(c)) < 3000 {
		Col.Sample("history", c)
	}
}

func TestC04(t *testing.T) {
	Col.Property = "C04"
	ReplayRegress(t, "C04")
	t.Run("big-frames-under-settings", func(t *testing.T) {
		bigFrameEnvCases(t, "C04", "c04", lenFrames, oracleC04)
	})
	RunProps(t, rpC04())
}

func rpC04() []RProp {
	return []RProp{MkProp("C04", "c04", "histories", func(rt *rapid.T) *CaseHist {
		c, st := genHistory(rt, lenFrames, false, true)
		histRecord(c, st, "C04")
		return c
	}, oracleC04)}
}

func rpC05() []RProp {
	return []RProp{MkProp("C05", "c05", "histories", func(rt *rapid.T) *CaseHist {
		c, st := genHistory(rt, ckFrames, false, false)
		histRecord(c, st, "C05")
		return c
	}, oracleC05)}
}

func init() {
	RapidProps["C04"] = rpC04
	RapidProps["C05"] = rpC05
}

func TestC05(t *testing.T) {
	Col.Property = "C05"
	ReplayRegress(t, "C05")
	t.Run("special-checksum-values", func(t *testing.T) {
		specialChecksumCases(t)
		Col.MarkExhaustive("every registered body type of the three checksummed frames with the frame checksum forced (by solving for a free body field) to 0, all-ones, 1, 0x80.. and the caller's stale value")
	})
	t.Run("big-frames-under-settings", func(t *testing.T) {
		bigFrameEnvCases(t, "C05", "c05", ckFrames, oracleC05)
		Col.MarkExhaustive("every list/text-carrying body type of the checksummed frames at ~70 KB, ~300 KB, ~1.1 MB under GOMAXPROCS 1 and 2, debug log level, reader-style services")
	})
	RunProps(t, rpC05())
}

// ---- frames whose checksum takes a special value (0, all ones, the caller's stale value) -----------------
// Such frames have probability 2^-32 under random generation for CRC-32, so they are constructed: the CRC of a
// frame is an affine function over GF(2) of any 32 of its bits; a free numeric field of the body is solved for.

// frameWithChecksum returns a copy of the frame value in which one free body field is set so that the reference
// checksum of the frame equals target. ok=false when the body has no suitable free field.
func frameWithChecksum(v *Value, target uint64) (*Value, bool) {
	ts := Types[v.Type]
	_, _, _, trailer, algo := frameGeometry(ts)
	if algo == "" || trailer == 0 {
		return nil, false
	}
	r := Render(v, &RenderOpts{Spans: true})
	if r.MustError || r.MayError {
		return nil, false
	}
	need := 4
	if algo != "CRC32" {
		need = 1
	}
	var free *Span
	for i := range r.Spans {
		sp := &r.Spans[i]
		if sp.Kind == "num" && sp.Len >= need && len(sp.Path) > 7 && sp.Path[:7] == "$.Body." || sp.Kind == "num" && sp.Len >= need && len(sp.Path) > 10 && sp.Path[:10] == "$.Payload." {
			free = sp
			break
		}
	}
	if free == nil {
		return nil, false
	}
	covered := append([]byte{}, r.Bytes[:len(r.Bytes)-trailer]...)
	set := func(x uint32) []byte {
		b := append([]byte{}, covered...)
		for i := 0; i < need; i++ {
			b[free.Off+i] = byte(x >> (8 * uint(i)))
		}
		return b
	}
	var x uint32
	if algo == "CRC32" {
		base := refChecksum(algo, set(0))
		var cols [32]uint32
		for i := 0; i < 32; i++ {
			cols[i] = uint32(refChecksum(algo, set(1<<uint(i))) ^ base)
		}
		// solve sum_i x_i*cols[i] = target ^ base over GF(2)
		want := uint32(target ^ base)
		type row struct{ vec, mask uint32 }
		rows := make([]row, 32)
		for i := range rows {
			rows[i] = row{cols[i], 1 << uint(i)}
		}
		var sol uint32
		used := make([]bool, 32)
		for bit := 31; bit >= 0; bit-- {
			p := -1
			for i := range rows {
				if !used[i] && rows[i].vec&(1<<uint(bit)) != 0 {
					p = i
					break
				}
			}
			if p < 0 {
				continue
			}
			used[p] = true
			for i := range rows {
				if i != p && rows[i].vec&(1<<uint(bit)) != 0 {
					rows[i].vec ^= rows[p].vec
					rows[i].mask ^= rows[p].mask
				}
			}
		}
		rem := want
		for bit := 31; bit >= 0; bit-- {
			if rem&(1<<uint(bit)) == 0 {
				continue
			}
			found := false
			for i := range rows {
				if used[i] && rows[i].vec != 0 && 31-leadingZeros32(rows[i].vec) == bit {
					rem ^= rows[i].vec
					sol ^= rows[i].mask
					found = true
					break
				}
			}
			if !found {
				return nil, false
			}
		}
		x = sol
	} else {
		cur := refChecksum(algo, set(0))
		x = uint32((target + 256 - cur) % 256)
	}
	if refChecksum(algo, set(x)) != target {
		return nil, false
	}
	// write the solved bytes back into the value tree: re-parse the patched rendering
	patched := append(set(x), r.Bytes[len(r.Bytes)-trailer:]...)
	pv, n, err := Parse(v.Type, patched)
	if err != nil || n != len(patched) {
		return nil, false
	}
	// keep the caller's stale computed fields
	for i, f := range ts.Fields {
		if f.Kind == "len" || f.Kind == "checksum" {
			pv.F[i].N = v.F[i].N
		}
	}
	return pv, true
}

func leadingZeros32(x uint32) int {
	n := 0
	for i := 31; i >= 0; i-- {
		if x&(1<<uint(i)) != 0 {
			return n
		}
		n++
	}
	return 32
}

// bigFrameEnvCases: large frames (70 KB, 300 KB, 1.1 MB) of every list-carrying body type under each process-wide
// setting (one CPU, two CPUs, debug log level, reader-style service): services that switch strategy with size or
// parallelism are exercised deliberately, not by luck.
func bigFrameEnvCases(t *testing.T, prop, check string, frames []string, oracle func(*CaseHist) *Failure) {
	seed := int(EnvSeed() % 1000003)
	i := 0
	for _, ft := range frames {
		ts := Types[ft]
		tb := TableOf(ts, &ts.Fields[ts.DynIndex()])
		seenBody := map[string]bool{}
		for _, key := range tb.Order {
			bt := tb.TypeFor(key)
			if seenBody[bt] || !bodyHasVar(Zero(bt)) {
				continue
			}
			seenBody[bt] = true
			for _, size := range []int{70000, 300000, 1100000} {
				for _, env := range [][]PreOp{{{Kind: "procs", K: 1}}, {{Kind: "procs", K: 2}}, {{Kind: "slogdebug"}}, {{Kind: "swapsvc", Algo: "SSE_BIN"}, {Kind: "swapsvc", Algo: "SZSE_BIN"}, {Kind: "swapsvc", Algo: "CRC32"}}} {
					i++
					if !MyShare(i) {
						continue
					}
					o := GenOpts{Mode: Canonical, MaxList: 20, ForceKey: key}
					v := rapid.Custom(func(rt *rapid.T) *Value { rapid.Bool().Draw(rt, "_"); x, _ := GenValue(rt, ft, o); return x }).Example(seed + i)
					if !resizeFrameTo(v, size) || len(Render(v, nil).Bytes) < size/2 {
						continue
					}
					c := &CaseHist{Ops: []Op{{Kind: "write", Raw: HexBytes{9, 9, 9}}, {Kind: "encode", V: v}}, Env: env}
					Col.Case(Hash64([]byte(ft), []byte(key), []byte(fmt.Sprint(size, env))), true, "big-frame-under-process-setting", fmt.Sprintf("frame~%dKB", size/1000))
					if !Direct(t, prop, check, fmt.Sprintf("bigenv/%s/%s/%d/%s", ft, key, size, env[0].Kind), c, oracle) {
						return
					}
				}
			}
		}
	}
}

func specialChecksumCases(t *testing.T) {
	seed := int(EnvSeed() % 1000003)
	n := 0
	for fi, ft := range ckFrames {
		ts := Types[ft]
		tb := TableOf(ts, &ts.Fields[ts.DynIndex()])
		for ki, key := range tb.Order {
			if !MyShare(fi*131 + ki) {
				continue
			}
			for rep := 0; rep < 3; rep++ {
				o := GenOpts{Mode: Canonical, MaxList: 40, ForceKey: key}
				v := rapid.Custom(func(rt *rapid.T) *Value { rapid.Bool().Draw(rt, "_"); x, _ := GenValue(rt, ft, o); return x }).Example(seed + 31*ki + rep)
				ci := ts.FieldIndex(ckFieldName(ts))
				stale := uint64(0x11111111)
				v.F[ci].N = stale
				targets := []uint64{0, 0xFFFFFFFF, 1, stale, 0x80000000}
				if ts.Fields[ci].Algo != "CRC32" {
					targets = []uint64{0, 0xFF, 1, 0x11, 0x80}
					v.F[ci].N = 0x11
				}
				for _, tg := range targets {
					fv, ok := frameWithChecksum(v, tg)
					if !ok {
						Col.Class("special-checksum: body has no free field (skipped)", 1)
						continue
					}
					c := &CaseHist{Ops: []Op{{Kind: "encode", V: fv}}}
					if rep == 1 {
						c.Ops = append([]Op{{Kind: "write", Raw: HexBytes{1, 2, 3}}}, c.Ops...)
					}
					Col.Case(Hash64(JSONOf(c)), true, "constructed-special-checksum-value", fmt.Sprintf("checksum==%#x", tg))
					n++
					if Col.WantSample("special-checksum") && len(JSONOf(c)) < 1500 {
						Col.Sample("special-checksum", map[string]any{"frame": ft, "checksum_forced_to": fmt.Sprintf("%#x", tg), "case": c})
					}
					if !Direct(t, "C05", "c05", fmt.Sprintf("special/%s/%s/%#x", ft, key, tg), c, oracleC05) {
						return
					}
				}
			}
		}
	}
}

// resizeFrameTo grows one variable-length field of the frame's body so that the frame renders to about
// target bytes. Returns false if the body has no field that can be grown.
func resizeFrameTo(v *Value, target int) bool {
	ts := Types[v.Type]
	body := v.F[ts.DynIndex()].O
	if body == nil {
		return false
	}
	cur := len(Render(v, nil).Bytes)
	extra := target - cur
	if extra <= 0 {
		return true
	}
	bts := Types[body.Type]
	for i, f := range bts.Fields {
		x := &body.F[i]
		switch f.Kind {
		case "text":
			n := min(extra, int(NMask(f.Prefix))-len(x.T))
			if n <= 0 {
				continue
			}
			x.T = append(append(HexBytes{}, x.T...), bytes.Repeat([]byte{'x'}, n)...)
			return true
		case "numlist":
			n := min(extra/NSize(f.NType), int(NMask(f.Count))-len(x.NL))
			if n <= 0 {
				continue
			}
			for k := 0; k < n; k++ {
				x.NL = append(x.NL, uint64(k)&NMask(f.NType))
			}
			x.Nil = false
			return true
		case "fixtextlist":
			if f.Width == 0 {
				continue
			}
			n := min(extra/f.Width, int(NMask(f.Count))-len(x.TL))
			if n <= 0 {
				continue
			}
			for k := 0; k < n; k++ {
				x.TL = append(x.TL, HexBytes{'a' + byte(k%26)}[:min(1, f.Width)])
			}
			x.Nil = false
			return true
		case "objlist":
			e := Skeleton(bts.Module+"."+f.Elem, 0)
			u := len(Render(e, nil).Bytes)
			if u == 0 {
				continue
			}
			n := min(extra/u, int(min(NMask(f.Count), 1<<20))-len(x.OL))
			if n <= 0 {
				continue
			}
			for k := 0; k < n; k++ {
				x.OL = append(x.OL, e)
			}
			x.Nil = false
			return true
		}
	}
	return false
}
