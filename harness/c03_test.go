package harness

// C03 — one byte order per protocol.
// (a) every BE/LE primitive pair against the harness' own rendering in both byte orders
//     (which implies the metamorphic relation "LE == BE with each integer reversed");
// (b) every message against the interpreter in its module's byte order.

import (
	"bytes"
	"fmt"
	"testing"

	"pgregory.net/rapid"
)

type CasePrim struct {
	Prim   string     `json:"prim"` // scalar numlist str fixlist strlist objlist
	Prefix string     `json:"prefix,omitempty"`
	Elem   string     `json:"elem,omitempty"`
	Inner  string     `json:"inner,omitempty"`
	Nums   []uint64   `json:"nums,omitempty"`
	Strs   []HexBytes `json:"strs,omitempty"`
	N      int        `json:"n,omitempty"`
	Pad    int        `json:"pad,omitempty"`
	Left   bool       `json:"left,omitempty"`
}

// refPrim renders the primitive's value in the given byte order with the harness' own code.
func refPrim(c *CasePrim, le bool) []byte {
	var out []byte
	switch c.Prim {
	case "scalar":
		out = putUint(out, c.Nums[0]&NMask(c.Elem), NSize(c.Elem), le)
	case "numlist":
		out = putUint(out, uint64(len(c.Nums)), NSize(c.Prefix), le)
		for _, n := range c.Nums {
			out = putUint(out, n&NMask(c.Elem), NSize(c.Elem), le)
		}
	case "str":
		out = putUint(out, uint64(len(c.Strs[0])), NSize(c.Prefix), le)
		out = append(out, c.Strs[0]...)
	case "fixlist":
		out = putUint(out, uint64(len(c.Strs)), NSize(c.Prefix), le)
		for _, s := range c.Strs {
			out = append(out, refFixedWrite(s, c.N, byte(c.Pad), c.Left)...)
		}
	case "strlist":
		out = putUint(out, uint64(len(c.Strs)), NSize(c.Prefix), le)
		for _, s := range c.Strs {
			out = putUint(out, uint64(len(s)), NSize(c.Inner), le)
			out = append(out, s...)
		}
	case "objlist":
		out = putUint(out, uint64(len(c.Strs)), NSize(c.Prefix), le)
		for _, s := range c.Strs {
			out = append(out, byte(len(s)))
			out = append(out, s...)
		}
	}
	return out
}

func libPrimWrite(c *CasePrim, le bool, buf *bytes.Buffer) error {
	switch c.Prim {
	case "scalar":
		return Scalars[c.Elem].write(buf, le, c.Nums[0])
	case "numlist":
		return NumLists[c.Prefix+","+c.Elem].write(buf, le, c.Nums)
	case "str":
		return Strs[c.Prefix].write(buf, le, string(c.Strs[0]))
	case "fixlist":
		return FixLists[c.Prefix].write(buf, le, strs(c.Strs), c.N, rune(c.Pad), c.Left)
	case "strlist":
		return StrLists[c.Prefix+","+c.Inner].write(buf, le, strs(c.Strs))
	case "objlist":
		bl := make([]*Blob, len(c.Strs))
		for i, s := range c.Strs {
			bl[i] = &Blob{P: s}
		}
		return ObjLists[c.Prefix].write(buf, le, bl)
	}
	panic("prim " + c.Prim)
}

// libPrimRead returns the value read, normalised to the case's representation.
func libPrimRead(c *CasePrim, le bool, buf *bytes.Buffer) (nums []uint64, ss []HexBytes, err error) {
	conv := func(in []string) []HexBytes {
		out := make([]HexBytes, len(in))
		for i, s := range in {
			out[i] = HexBytes(s)
		}
		return out
	}
	switch c.Prim {
	case "scalar":
		var n uint64
		n, err = Scalars[c.Elem].read(buf, le)
		return []uint64{n}, nil, err
	case "numlist":
		nums, err = NumLists[c.Prefix+","+c.Elem].read(buf, le)
		return nums, nil, err
	case "str":
		var s string
		s, err = Strs[c.Prefix].read(buf, le)
		return nil, []HexBytes{HexBytes(s)}, err
	case "fixlist":
		var l []string
		l, err = FixLists[c.Prefix].read(buf, le, c.N, rune(c.Pad), c.Left)
		return nil, conv(l), err
	case "strlist":
		var l []string
		l, err = StrLists[c.Prefix+","+c.Inner].read(buf, le)
		return nil, conv(l), err
	case "objlist":
		var l []*Blob
		l, err = ObjLists[c.Prefix].read(buf, le)
		out := make([]HexBytes, len(l))
		for i, b := range l {
			out[i] = b.P
		}
		return nil, out, err
	}
	panic("prim " + c.Prim)
}

func primName(c *CasePrim, le bool, write bool) string {
	base := map[string]string{"scalar": "BasicType", "numlist": "BasicTypeList", "str": "String", "fixlist": "FixedStringListWithPadding", "strlist": "StringList", "objlist": "ObjectList"}[c.Prim]
	if c.Prim == "fixlist" && !write {
		base = "FixedStringListTrimPadding"
	}
	rw := "Read"
	if write {
		rw = "Write"
	}
	if le {
		return rw + base + "LE"
	}
	return rw + base
}

func oracleC03Prim(c *CasePrim) *Failure {
	for _, le := range []bool{false, true} {
		want := refPrim(c, le)
		var buf bytes.Buffer
		err, p, _ := safely(func() error { return libPrimWrite(c, le, &buf) })
		wn := primName(c, le, true)
		if p != nil {
			return failf("C03/"+wn+"/panic", "panicked: %v", p)
		}
		if err != nil {
			return failf("C03/"+wn+"/error", "returned error %v", err)
		}
		if !bytes.Equal(buf.Bytes(), want) {
			order := map[bool]string{false: "big", true: "little"}[le]
			part := "count-or-prefix"
			if i := firstDiff(buf.Bytes(), want); c.Prefix != "" && i >= NSize(c.Prefix) || c.Prim == "scalar" {
				part = "element"
			}
			return failf("C03/"+wn+"/"+part, "%s[%s%s] wrote %s, %s-endian rendering is %s (first difference at byte %d)", wn, c.Prefix, opt(c.Elem, c.Inner), hexClip(buf.Bytes()), order, hexClip(want), firstDiff(buf.Bytes(), want))
		}
		rn := primName(c, le, false)
		rb := bytes.NewBuffer(append(append([]byte{}, want...), 0xEE))
		var nums []uint64
		var ss []HexBytes
		err, p, _ = safely(func() error { var e error; nums, ss, e = libPrimRead(c, le, rb); return e })
		if p != nil {
			return failf("C03/"+rn+"/panic", "panicked: %v", p)
		}
		if err != nil {
			return failf("C03/"+rn+"/error", "returned error %v on %s", err, hexClip(want))
		}
		if c.Prim == "scalar" || c.Prim == "numlist" {
			if len(nums) != len(c.Nums) {
				return failf("C03/"+rn+"/count-or-prefix", "read %d elements from %s, expected %d", len(nums), hexClip(want), len(c.Nums))
			}
			for i := range nums {
				if nums[i]&NMask(c.Elem) != c.Nums[i]&NMask(c.Elem) {
					return failf("C03/"+rn+"/element", "element %d read as %#x, expected %#x", i, nums[i], c.Nums[i]&NMask(c.Elem))
				}
			}
		} else {
			if len(ss) != len(c.Strs) {
				return failf("C03/"+rn+"/count-or-prefix", "read %d elements from %s, expected %d", len(ss), hexClip(want), len(c.Strs))
			}
			for i := range ss {
				w := []byte(c.Strs[i])
				if c.Prim == "fixlist" {
					w = refFixedRead(refFixedWrite(w, c.N, byte(c.Pad), c.Left), byte(c.Pad), c.Left)
				}
				if !bytes.Equal(ss[i], w) {
					return failf("C03/"+rn+"/element", "element %d read as %q, expected %q", i, clip(ss[i]), clip(w))
				}
			}
		}
		if rb.Len() != 1 {
			return failf("C03/"+rn+"/consumed", "reader left %d bytes, expected 1", rb.Len())
		}
	}
	return nil
}

func opt(a, b string) string {
	if a != "" {
		return "," + a
	}
	if b != "" {
		return "," + b
	}
	return ""
}

func genPrimLen(rt *rapid.T, prefix string) int {
	max := int(min(NMask(prefix), 400))
	switch rapid.IntRange(0, 5).Draw(rt, "lc") {
	case 0:
		return 0
	case 1:
		return 1
	case 2, 3:
		return rapid.IntRange(2, min(6, max)).Draw(rt, "len")
	case 4:
		return min(max, rapid.SampledFrom([]int{255, 256, 257, 300}).Draw(rt, "len"))
	default:
		return rapid.IntRange(0, min(40, max)).Draw(rt, "len")
	}
}

func genC03Prim(rt *rapid.T) *CasePrim {
	c := &CasePrim{Prim: rapid.SampledFrom([]string{"scalar", "numlist", "numlist", "str", "fixlist", "strlist", "objlist", "objlist"}).Draw(rt, "prim")}
	g := &gen{rt: rt, feat: &Features{}, mult: 1}
	if c.Prim != "scalar" {
		c.Prefix = rapid.SampledFrom(PrefixTypes).Draw(rt, "prefix")
	}
	mkStr := func(maxLen int) HexBytes {
		b := genBytesBiased(rt, "s", rapid.IntRange(0, maxLen).Draw(rt, "slen"), ' ')
		if b == nil {
			b = []byte{}
		}
		return b
	}
	switch c.Prim {
	case "scalar":
		c.Elem = rapid.SampledFrom(ElemTypes).Draw(rt, "elem")
		c.Nums = []uint64{g.num("v", c.Elem)}
	case "numlist":
		c.Elem = rapid.SampledFrom(ElemTypes).Draw(rt, "elem")
		n := genPrimLen(rt, c.Prefix)
		c.Nums = make([]uint64, n)
		for i := range c.Nums {
			if n > 12 {
				c.Nums[i] = splitmix(uint64(i)*7+uint64(n)) & NMask(c.Elem)
			} else {
				c.Nums[i] = g.num("v", c.Elem)
			}
		}
	case "str":
		l := genPrimLen(rt, c.Prefix)
		c.Strs = []HexBytes{expandBytes(l, rapid.Uint64().Draw(rt, "salt"))}
	case "fixlist":
		c.N = rapid.IntRange(0, 12).Draw(rt, "N")
		c.Pad = int(rapid.SampledFrom([]byte{' ', '0', 0}).Draw(rt, "pad"))
		c.Left = rapid.Bool().Draw(rt, "left")
		n := genPrimLen(rt, c.Prefix)
		c.Strs = make([]HexBytes, n)
		for i := range c.Strs {
			if n > 8 {
				c.Strs[i] = expandBytes(int(splitmix(uint64(i))%uint64(c.N+2)), uint64(i))
			} else {
				c.Strs[i] = mkStr(c.N + 2)
			}
		}
	case "strlist":
		c.Inner = rapid.SampledFrom(PrefixTypes).Draw(rt, "inner")
		n := genPrimLen(rt, c.Prefix)
		c.Strs = make([]HexBytes, n)
		for i := range c.Strs {
			if n > 8 {
				c.Strs[i] = expandBytes(int(splitmix(uint64(i))%5), uint64(i))
			} else {
				c.Strs[i] = mkStr(20)
			}
		}
		if n > 0 && NSize(c.Inner) > 1 && rapid.IntRange(0, 3).Draw(rt, "longelem") == 0 {
			c.Strs[0] = expandBytes(rapid.SampledFrom([]int{256, 258, 300}).Draw(rt, "elen"), 1)
		}
	case "objlist":
		n := genPrimLen(rt, c.Prefix)
		c.Strs = make([]HexBytes, n)
		for i := range c.Strs {
			if n > 8 {
				c.Strs[i] = expandBytes(int(splitmix(uint64(i))%4), uint64(i))
			} else {
				c.Strs[i] = mkStr(9)
			}
		}
	}
	if c.Elem == "def-float32" {
		// encoding/binary handles a defined float type by reflection (float32 -> float64 -> float32), which quiets a
		// signalling NaN in both byte orders alike; not a byte-order matter, so such payloads are kept out of this domain
		for i, n := range c.Nums {
			if n&0x7f800000 == 0x7f800000 && n&0x007fffff != 0 {
				c.Nums[i] = n | 0x00400000
			}
		}
	}
	be, le := refPrim(c, false), refPrim(c, true)
	cls := []string{"prim:" + c.Prim}
	if c.Prefix != "" {
		cls = append(cls, "prefix:"+c.Prefix)
	}
	if c.Prim == "numlist" && len(c.Nums) >= 2 {
		cls = append(cls, "numlist>=2")
	}
	if c.Prim == "numlist" && NSize(c.Elem) > 1 && len(c.Nums) >= 1 {
		cls = append(cls, "numlist-multibyte-elem")
	}
	if len(c.Nums) >= 256 || len(c.Strs) >= 256 {
		cls = append(cls, "count>=256")
	}
	nt := !bytes.Equal(be, le)
	if nt {
		cls = append(cls, "orders-differ")
	}
	Col.Case(Hash64(JSONOf(c)), nt, cls...)
	if nt && Col.WantSample("prim:"+c.Prim) && len(be) < 64 {
		Col.Sample("prim:"+c.Prim, map[string]any{"case": c, "be": hexClip(be), "le": hexClip(le)})
	}
	return c
}

// (b) message level
func oracleC03Msg(c *CaseValue) *Failure {
	defer runPrelude(c.Pre)()
	var ro *RenderOpts
	for _, op := range c.Pre {
		if op.Kind == "unreg" {
			if ro == nil {
				ro = &RenderOpts{NoService: map[string]bool{}}
			}
			ro.NoService[op.Algo] = true
		}
	}
	r := Render(c.V, ro)
	if r.MustError || r.MayError {
		Col.BrokenHarness("C03 message generator produced a value outside the must-succeed domain: " + r.Why)
		return nil
	}
	out, _, err, pan := LibEncode(c.V)
	if pan != nil {
		return failf("C03/"+c.Type+"/encode-panic", "Encode panicked: %v", pan)
	}
	if err != nil {
		return failf("C03/"+c.Type+"/encode-error", "Encode returned %v", err)
	}
	if !bytes.Equal(out, r.Bytes) {
		order := "big"
		if Types[c.Type].LE {
			order = "little"
		}
		i := firstDiff(out, r.Bytes)
		fo := &RenderOpts{FlipEndian: true}
		if ro != nil {
			fo.NoService = ro.NoService
		}
		flipped := Render(c.V, fo)
		hint := ""
		if bytes.Equal(out, flipped.Bytes) {
			hint = " (equals the rendering in the other byte order)"
		}
		return failf("C03/"+c.Type+"/bytes", "%s-endian protocol: library wrote %s, schema rendering %s; first difference at byte %d%s", order, hexClip(out), hexClip(r.Bytes), i, hint)
	}
	return nil
}

func init() {
	registerReplay("c03prim", oracleC03Prim)
	registerReplay("c03msg", oracleC03Msg)
}

func TestC03(t *testing.T) {
	Col.Property = "C03"
	ReplayRegress(t, "C03")
	t.Run("instantiations", func(t *testing.T) {
		// every (primitive, prefix, element) instantiation once with a fixed distinguishing value ...
		i := 0
		for _, pfx := range PrefixTypes {
			for _, el := range ElemTypes {
				i++
				if !MyShare(i) {
					continue
				}
				c := &CasePrim{Prim: "numlist", Prefix: pfx, Elem: el, Nums: []uint64{0x0102030405060708, 0x1112131415161718}}
				Col.Case(Hash64(JSONOf(c)), NSize(el) > 1 || NSize(pfx) > 1, "enumerated-instantiation")
				Direct(t, "C03", "c03prim", "inst/numlist/"+pfx+"/"+el, c, oracleC03Prim)
			}
			for _, in := range PrefixTypes {
				c := &CasePrim{Prim: "strlist", Prefix: pfx, Inner: in, Strs: []HexBytes{HexBytes("ab"), HexBytes("")}}
				Col.Case(Hash64(JSONOf(c)), NSize(in) > 1 || NSize(pfx) > 1, "enumerated-instantiation")
				Direct(t, "C03", "c03prim", "inst/strlist/"+pfx+"/"+in, c, oracleC03Prim)
			}
			for _, pr := range []string{"str", "fixlist", "objlist"} {
				c := &CasePrim{Prim: pr, Prefix: pfx, Strs: []HexBytes{HexBytes("xyz")}, N: 4, Pad: ' '}
				Col.Case(Hash64(JSONOf(c)), NSize(pfx) > 1, "enumerated-instantiation")
				Direct(t, "C03", "c03prim", "inst/"+pr+"/"+pfx, c, oracleC03Prim)
			}
		}
		Col.MarkExhaustive("every BE/LE primitive instantiation over 4 prefix types x 10 element types (fixed distinguishing value each)")
	})
	RunProps(t, rpC03(MyTypes()))
}

func init() { RapidProps["C03"] = func() []RProp { return rpC03(TypeNames) } }

func rpC03(types []string) (out []RProp) {
	out = append(out, MkProp("C03", "c03prim", "primitives", genC03Prim, oracleC03Prim))
	for _, tn := range types {
		tn := tn
		out = append(out, MkProp("C03", "c03msg", tn, func(rt *rapid.T) *CaseValue {
			o := DefaultOpts(Arbitrary)
			o.NoAbsent = true
			o.BigProb, o.HugeProb, o.HugeObj = 0, 0, 0 // sizes do not matter for byte order
			v, ft := GenValue(rt, tn, o)
			c := &CaseValue{Type: tn, V: v}
			if ckFieldName(Types[tn]) != "" && rapid.IntRange(0, 4).Draw(rt, "noservice") == 0 {
				// the frame's checksum service is not registered: the caller's value goes out, in the protocol's byte order
				c.Pre = []PreOp{{Kind: "unreg", Algo: Types[tn].Fields[Types[tn].FieldIndex(ckFieldName(Types[tn]))].Algo}}
				Col.Class("frame-without-its-checksum-service", 1)
			}
			a, b := Render(v, nil), Render(v, &RenderOpts{FlipEndian: true})
			nt := !bytes.Equal(a.Bytes, b.Bytes)
			cls := []string{"msg", "module:" + Types[tn].Module}
			if nt {
				cls = append(cls, "orders-differ")
			}
			if ft.ListNot1 > 0 {
				cls = append(cls, "msg-with-list")
			}
			Col.Case(Hash64([]byte(tn), a.Bytes), nt, cls...)
			Col.Program(tn)
			if nt && Col.WantSample("msg") && len(a.Bytes) < 200 {
				Col.Sample("msg", map[string]any{"type": tn, "bytes": hexClip(a.Bytes), "endian": fmt.Sprint(map[bool]string{true: "LE", false: "BE"}[Types[tn].LE])})
			}
			return c
		}, oracleC03Msg))
	}
	return
}
