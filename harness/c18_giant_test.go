package harness

// C18 at 32-bit prefixes: values of 2^32 and more bytes/elements must be refused too.
//
// The generic writers take `T constraints.Unsigned` for the prefix; the protocols use uint32 prefixes for every text
// of the risk module, one SZSE text and two SZSE repeating groups. A value that does not fit such a prefix has at
// least 2^32 bytes/elements. The harness does not own 4 GiB of data, and does not need to:
//   - texts are Go strings over an anonymous read-only mapping of zero pages (MAP_NORESERVE: address space only;
//     a correct writer refuses before it reads a single byte, so nothing is ever touched);
//   - object lists use a zero-size element type (`[]Unit` of any length occupies no memory).
// Only a writer that fails to refuse copies data (a few seconds, ~4 GiB), which is the violation being reported.
// At and below the limit (2^31, 2^32-1: real data, 2 x 4 GiB resident) is tried in the thorough tier only and only
// when the machine has the memory.

import (
	"bytes"
	"fmt"
	"os"
	"reflect"
	"strconv"
	"strings"
	"sync"
	"syscall"
	"testing"
	"unsafe"

	"github.com/xinchentechnote/fin-proto-go/codec"
)

// Unit: zero-size object-list element; Encode writes nothing and counts the calls.
type Unit struct{}

var unitCalls int64

func (Unit) Encode(buf *bytes.Buffer) error { unitCalls++; return nil }
func (Unit) Decode(buf *bytes.Buffer) error { return nil }

const giantSpan = 1<<33 + 1<<16

var (
	giantOnce sync.Once
	giantMem  []byte
	giantErr  error
)

// giantZeros: n bytes of address space that read as zero and are never written.
func giantZeros(n int) ([]byte, error) {
	giantOnce.Do(func() {
		giantMem, giantErr = syscall.Mmap(-1, 0, giantSpan, syscall.PROT_READ, syscall.MAP_PRIVATE|syscall.MAP_ANON|syscall.MAP_NORESERVE)
	})
	if giantErr != nil {
		return nil, giantErr
	}
	if n > len(giantMem) {
		return nil, fmt.Errorf("giant span too small for %d", n)
	}
	return giantMem[:n:n], nil
}

func giantString(n int) (string, error) {
	m, err := giantZeros(n)
	if err != nil {
		return "", err
	}
	return unsafe.String(&m[0], n), nil
}

type CaseC18Giant struct {
	Prim   string     `json:"prim"`   // str | strlist-inner | objlist | numlist | msg-text
	Prefix string     `json:"prefix"` // uint32 | def-uint32 (primitives)
	LE     bool       `json:"le"`
	N      int        `json:"n"`
	Type   string     `json:"type,omitempty"` // msg-text: message type, key index, path, field
	Key    int        `json:"key,omitempty"`
	Path   []PathStep `json:"path,omitempty"`
	Field  string     `json:"field,omitempty"`
	Roomy  bool       `json:"roomy,omitempty"` // buffer that already holds spare capacity and earlier content
}

func giantWriteObjList(prefix string, le bool, buf *bytes.Buffer, vals []Unit) error {
	switch {
	case prefix == "uint32" && !le:
		return codec.WriteObjectList[uint32](buf, vals)
	case prefix == "uint32" && le:
		return codec.WriteObjectListLE[uint32](buf, vals)
	case prefix == "def-uint32" && !le:
		return codec.WriteObjectList[DefP32](buf, vals)
	case prefix == "def-uint32" && le:
		return codec.WriteObjectListLE[DefP32](buf, vals)
	case prefix == "uint16" && !le:
		return codec.WriteObjectList[uint16](buf, vals)
	case prefix == "uint16" && le:
		return codec.WriteObjectListLE[uint16](buf, vals)
	}
	return fmt.Errorf("harness: no object-list instantiation for %s", prefix)
}

// navigate walks from a library object along path and returns the addressable struct that owns the last field.
func navigate(obj any, typeName string, path []PathStep) (reflect.Value, bool) {
	rv := reflect.ValueOf(obj)
	for _, st := range path {
		for rv.Kind() == reflect.Pointer || rv.Kind() == reflect.Interface {
			if rv.IsNil() {
				return rv, false
			}
			rv = rv.Elem()
		}
		fv := rv.FieldByName(st.Field)
		if !fv.IsValid() {
			return rv, false
		}
		if fv.Kind() == reflect.Slice {
			if st.Index >= fv.Len() {
				return rv, false
			}
			fv = fv.Index(st.Index)
		}
		rv = fv
	}
	for rv.Kind() == reflect.Pointer || rv.Kind() == reflect.Interface {
		if rv.IsNil() {
			return rv, false
		}
		rv = rv.Elem()
	}
	return rv, rv.Kind() == reflect.Struct
}

func oracleC18Giant(c *CaseC18Giant) *Failure {
	max := uint64(1<<32 - 1)
	if c.Prim == "objlist" && c.Prefix == "uint16" {
		max = 1<<16 - 1
	}
	var buf bytes.Buffer
	where := ""
	if c.Roomy {
		buf.Grow(1 << 16)
		buf.WriteString("earlier content")
		where = " (buffer with earlier content and spare capacity)"
	}
	before := buf.Len()
	var call func() error
	name := ""
	switch c.Prim {
	case "str":
		s, err := giantString(c.N)
		if err != nil {
			Col.Class("giant mapping unavailable: "+err.Error(), 1)
			return nil
		}
		name = "WriteString"
		call = func() error { return Strs[c.Prefix].write(&buf, c.LE, s) }
	case "strlist-inner":
		s, err := giantString(c.N)
		if err != nil {
			Col.Class("giant mapping unavailable: "+err.Error(), 1)
			return nil
		}
		name = "WriteStringList(element length)"
		call = func() error { return StrLists["uint16,"+c.Prefix].write(&buf, c.LE, []string{"ok", s, "after"}) }
	case "numlist":
		m, err := giantZeros(c.N)
		if err != nil {
			Col.Class("giant mapping unavailable: "+err.Error(), 1)
			return nil
		}
		name = "WriteBasicTypeList"
		call = func() error {
			if c.LE {
				return codec.WriteBasicTypeListLE[uint32](&buf, m)
			}
			return codec.WriteBasicTypeList[uint32](&buf, m)
		}
	case "objlist":
		vals := make([]Unit, c.N)
		name = "WriteObjectList"
		call = func() error { return giantWriteObjList(c.Prefix, c.LE, &buf, vals) }
	case "msg-text":
		s, err := giantString(c.N)
		if err != nil {
			Col.Class("giant mapping unavailable: "+err.Error(), 1)
			return nil
		}
		obj := ToStruct(Skeleton(c.Type, c.Key))
		owner, ok := navigate(obj, c.Type, c.Path)
		if !ok {
			Col.BrokenHarness("C18 giant case: path not found in " + c.Type)
			return nil
		}
		fv := owner.FieldByName(c.Field)
		if !fv.IsValid() || fv.Kind() != reflect.String {
			Col.BrokenHarness("C18 giant case: no text field " + c.Type + "." + c.Field)
			return nil
		}
		fv.SetString(s)
		name = c.Type + "." + c18PathString(&CaseC18Msg{Path: c.Path, Field: c.Field})
		call = func() error { return EncodeAny(obj, &buf) }
	default:
		Col.BrokenHarness("C18 giant case: unknown primitive " + c.Prim)
		return nil
	}
	if c.LE && c.Prim != "msg-text" {
		name = strings.Replace(name, "(", "LE(", 1)
		if !strings.Contains(name, "LE") {
			name += "LE"
		}
	}
	sig := fmt.Sprintf("C18/%s[%s]", name, c.Prefix)
	if c.Prim == "msg-text" {
		sig = "C18/" + name
	}
	unitCalls = 0
	err, pan, _ := safely(call)
	if pan != nil {
		return failf(sig+"/panic", "length %d%s: panicked: %v", c.N, where, pan)
	}
	if uint64(c.N) > max {
		if err == nil {
			pfx := buf.Bytes()[before:min(buf.Len(), before+12)]
			return failf(sig+"/wrapped", "length %d exceeds the prefix maximum %d, yet the encoder succeeded%s and appended %d bytes starting %x (a wrapped-around prefix followed by the data)", c.N, max, where, buf.Len()-before, pfx)
		}
		return nil
	}
	// at or below the limit: must encode and read back (real data; callers gate this on available memory)
	if err != nil {
		return failf(sig+"/refused-valid", "length %d fits the prefix (max %d) but the writer returned %v%s", c.N, max, err, where)
	}
	switch c.Prim {
	case "str":
		if buf.Len()-before != 4+c.N {
			return failf(sig+"/roundtrip", "length %d: %d bytes appended", c.N, buf.Len()-before)
		}
		rd := bytes.NewBuffer(buf.Bytes()[before:])
		got, rerr := Strs[c.Prefix].read(rd, c.LE)
		if rerr != nil || len(got) != c.N || rd.Len() != 0 {
			return failf(sig+"/roundtrip", "length %d: read back %d bytes, err=%v, %d left", c.N, len(got), rerr, rd.Len())
		}
	case "objlist":
		if unitCalls != int64(c.N) {
			return failf(sig+"/roundtrip", "length %d: %d elements encoded", c.N, unitCalls)
		}
	}
	return nil
}

func memAvailableGiB() int {
	b, err := os.ReadFile("/proc/meminfo")
	if err != nil {
		return 0
	}
	avail := 0
	for _, ln := range strings.Split(string(b), "\n") {
		if strings.HasPrefix(ln, "MemAvailable:") {
			f := strings.Fields(ln)
			if len(f) >= 2 {
				kb, _ := strconv.Atoi(f[1])
				avail = kb >> 20
			}
		}
	}
	for _, p := range []string{"/sys/fs/cgroup/memory.max", "/sys/fs/cgroup/memory/memory.limit_in_bytes"} {
		if b, err := os.ReadFile(p); err == nil {
			if v, err := strconv.ParseInt(strings.TrimSpace(string(b)), 10, 64); err == nil && int(v>>30) < avail {
				avail = int(v >> 30)
			}
		}
	}
	return avail
}

func init() { registerReplay("c18giant", oracleC18Giant) }

func runC18Giant(t *testing.T) {
	judge := func(c *CaseC18Giant, classes ...string) {
		Col.Case(Hash64(JSONOf(c)), true, append([]string{"32-bit prefix driven beyond its maximum (>= 2^32)"}, classes...)...)
		if Col.WantSample("giant:" + c.Prim) {
			Col.Sample("giant:"+c.Prim, c)
		}
		Direct(t, "C18", "c18giant", fmt.Sprintf("giant/%s/%s/%v/%d/%s.%s", c.Prim, c.Prefix, c.LE, c.N, c.Type, c.Field), c, oracleC18Giant)
	}
	i := 0
	for _, prim := range []string{"str", "strlist-inner", "objlist"} {
		for _, pfx := range []string{"uint32", "def-uint32"} {
			for _, le := range []bool{false, true} {
				for _, n := range []int{1 << 32, 1<<32 + 1, 1<<32 + 77, 1<<33 + 2} {
					for _, roomy := range []bool{false, true} {
						i++
						if !MyShare(i) || t.Failed() {
							continue
						}
						judge(&CaseC18Giant{Prim: prim, Prefix: pfx, LE: le, N: n, Roomy: roomy}, "giant-primitive")
					}
				}
			}
		}
	}
	// zero-size elements make the 16-bit object list cheap as well, at lengths the Blob cases do not reach
	for _, le := range []bool{false, true} {
		for _, n := range []int{1 << 16, 1 << 24, 1 << 32} {
			i++
			if MyShare(i) && !t.Failed() {
				judge(&CaseC18Giant{Prim: "objlist", Prefix: "uint16", LE: le, N: n}, "giant-primitive")
			}
		}
	}
	if Thorough() && EnvShard() == 0 && !t.Failed() {
		for _, le := range []bool{false, true} {
			judge(&CaseC18Giant{Prim: "numlist", Prefix: "uint32", LE: le, N: 1 << 32}, "giant-primitive")
		}
	}
	Col.MarkExhaustive("String, StringList element, ObjectList writers x {uint32, defined uint32} x {BE,LE} x lengths {2^32, 2^32+1, 2^32+77, 2^33+2} x {fresh, roomy buffer}")
	// every 32-bit-prefixed text field of every message, on its own and through every enclosing part / frame
	for _, tn := range MyTypes() {
		ts := Types[tn]
		nkeys := 1
		if di := ts.DynIndex(); di >= 0 {
			nkeys = len(TableOf(ts, &ts.Fields[di]).Order)
		}
		seen := map[string]bool{}
		for k := 0; k < nkeys; k++ {
			var targets []c18Target
			sk := Skeleton(tn, k)
			c18Targets(sk, nil, &targets, 0)
			for _, tg := range targets {
				if NSize(tg.ptype) != 4 || tg.inner {
					continue
				}
				owner := sk
				okp := true
				for _, st := range tg.path {
					x := owner.F[Types[owner.Type].FieldIndex(st.Field)]
					if len(x.OL) > st.Index {
						owner = x.OL[st.Index]
					} else if x.O != nil {
						owner = x.O
					} else {
						okp = false
					}
				}
				if !okp {
					continue
				}
				fi := Types[owner.Type].FieldIndex(tg.field)
				if fi < 0 || Types[owner.Type].Fields[fi].Kind != "text" {
					continue // 32-bit-counted object lists: see the stated bound in DESIGN.md
				}
				id := owner.Type + fmt.Sprint(tg.path, tg.field)
				if seen[id] || t.Failed() {
					continue
				}
				seen[id] = true
				for _, n := range []int{1 << 32, 1<<32 + 5} {
					nest := "giant-message-field:top-level"
					if len(tg.path) > 0 {
						nest = "giant-message-field:nested (error must propagate through the enclosing message)"
					}
					Col.Program(tn)
					judge(&CaseC18Giant{Prim: "msg-text", Type: tn, Key: k, Path: tg.path, Field: tg.field, N: n, Roomy: n&1 == 1}, nest)
				}
			}
		}
	}
	Col.MarkExhaustive("every 32-bit-prefixed text field of every message (23 fields; also through every body/extension that carries one) at 2^32 and 2^32+5 bytes")
	// at and below the limit with real data: thorough tier, one shard, only with enough memory
	if Thorough() && EnvShard() == 0 && !t.Failed() {
		if g := memAvailableGiB(); g >= 28 {
			for _, n := range []int{1 << 31, 1<<32 - 1} {
				c := &CaseC18Giant{Prim: "str", Prefix: "uint32", LE: n&1 == 0, N: n}
				Col.Case(Hash64(JSONOf(c)), true, "32-bit prefix at/below its maximum with real data (2^31, 2^32-1 bytes)")
				Direct(t, "C18", "c18giant", fmt.Sprintf("giant-valid/%d", n), c, oracleC18Giant)
			}
			c := &CaseC18Giant{Prim: "objlist", Prefix: "uint32", N: 1<<32 - 1}
			Col.Case(Hash64(JSONOf(c)), true, "32-bit prefix at/below its maximum with real data (2^31, 2^32-1 bytes)")
			Direct(t, "C18", "c18giant", "giant-valid/objlist", c, oracleC18Giant)
		} else {
			Col.Class(fmt.Sprintf("at-limit 32-bit cases skipped: %d GiB available, 28 needed", g), 1)
		}
	}
}
