package harness

// C08 — whatever bytes a decoder accepts, re-encoding the result reproduces those bytes.
// C15 — a decode result depends only on the bytes, not on what the receiver held before.
// C16 — decoded messages and encoded bytes never alias each other's memory.

import (
	"bytes"
	"fmt"
	"reflect"
	"sort"
	"strconv"
	"strings"
	"testing"

	"pgregory.net/rapid"
)

type CaseBytes struct {
	Type  string   `json:"type"`
	W     HexBytes `json:"w"`
	Spare int      `json:"spare,omitempty"` // spare capacity of the input buffer behind the data (C09/C10)
	Pre   []PreOp  `json:"pre,omitempty"`   // prior calls in the same process
	Twin  HexBytes `json:"twin,omitempty"`  // C10: the same message with truthful counts/lengths (W only overstates a prefix)
}

// computedSpans: byte ranges of self-computed fields in the rendering of v (any depth).
func computedSpans(v *Value) (*Rendered, []Span) {
	r := Render(v, &RenderOpts{Spans: true})
	var out []Span
	for _, sp := range r.Spans {
		if sp.Kind == "len" || sp.Kind == "checksum" {
			out = append(out, sp)
		}
	}
	return r, out
}

func oracleC08(c *CaseBytes) *Failure {
	defer runPrelude(c.Pre)()
	got, rest, err, pan := LibDecode(c.Type, c.W)
	sig := "C08/" + c.Type
	if pan != nil {
		return nil // C09's business
	}
	if err != nil {
		return nil // not accepted: nothing demanded
	}
	consumed := c.W[:len(c.W)-len(rest)]
	out, _, eerr, epan := LibEncode(got)
	if epan != nil {
		return failf(sig+"/reencode-panic", "re-encoding the decoded message panicked: %v", epan)
	}
	if eerr != nil {
		return failf(sig+"/reencode-error", "re-encoding the decoded message failed: %v", eerr)
	}
	if bytes.Equal(out, consumed) {
		return nil
	}
	if len(out) != len(consumed) {
		return failf(sig+"/length", "decoder consumed %d bytes %s, re-encoding gives %d bytes %s", len(consumed), hexClip(consumed), len(out), hexClip(out))
	}
	// differences are only permitted inside self-computed fields, which must then be correct
	r, spans := computedSpans(got)
	allowed := make([]bool, len(out))
	if len(r.Bytes) == len(out) {
		for _, sp := range spans {
			for i := sp.Off; i < sp.Off+sp.Len && i < len(allowed); i++ {
				allowed[i] = true
			}
		}
	}
	for i := range out {
		if out[i] != consumed[i] && !allowed[i] {
			return failf(sig+"/bytes", "byte %d of the accepted input is %#02x, re-encoding gives %#02x (%s); input %s", i, consumed[i], out[i], spanAt(got, i), hexClip(consumed))
		}
	}
	for _, sp := range spans {
		if sp.Off+sp.Len <= len(out) && !bytes.Equal(out[sp.Off:sp.Off+sp.Len], r.Bytes[sp.Off:sp.Off+sp.Len]) {
			return failf(sig+"/computed-field", "re-encoded %s is %x, correct value is %x", sp.Path, out[sp.Off:sp.Off+sp.Len], r.Bytes[sp.Off:sp.Off+sp.Len])
		}
	}
	return nil
}

// wireString draws a schema-valid wire string built from raw field bytes, with
// stale (arbitrary) self-computed fields patched in, and optionally mutated.
func wireString(rt *rapid.T, tn string) (w []byte, feat *Features, stale, mutated bool) {
	o := DefaultOpts(Wire)
	o.BigProb, o.MaxList = 60, 2000
	v, ft := GenValue(rt, tn, o)
	r, spans := computedSpans(v)
	w = append([]byte{}, r.Bytes...)
	if len(spans) > 0 && rapid.IntRange(0, 4).Draw(rt, "nearlen") == 0 {
		// the length field is off by a little, optionally with that many extra bytes really present behind the body
		// (a frame from a newer interface version; a sender that counts differently)
		le := Types[tn].LE
		for _, sp := range spans {
			if sp.Kind != "len" {
				continue
			}
			cur := getUint(w[sp.Off:], sp.Len, le)
			k := uint64(rapid.IntRange(1, 24).Draw(rt, "lendelta"))
			switch rapid.IntRange(0, 2).Draw(rt, "lenhow") {
			case 0:
				copy(w[sp.Off:], putUint(nil, cur+k, sp.Len, le))
			case 1:
				if cur >= k {
					copy(w[sp.Off:], putUint(nil, cur-k, sp.Len, le))
				}
			default:
				copy(w[sp.Off:], putUint(nil, cur+k, sp.Len, le))
				at := len(w)
				for _, o := range spans {
					if o.Kind == "checksum" {
						at = o.Off
					}
				}
				extra := rapid.SliceOfN(rapid.Byte(), int(k), int(k)).Draw(rt, "extra")
				w = append(w[:at:at], append(extra, w[at:]...)...)
			}
			stale = true
		}
		return w, ft, stale, false
	}
	if len(spans) > 0 && rapid.Bool().Draw(rt, "stale") {
		for _, sp := range spans {
			b := rapid.SliceOfN(rapid.Byte(), sp.Len, sp.Len).Draw(rt, "stalebytes")
			if !bytes.Equal(w[sp.Off:sp.Off+sp.Len], b) {
				stale = true
			}
			copy(w[sp.Off:], b)
		}
	}
	if len(w) > 0 && rapid.IntRange(0, 3).Draw(rt, "mutate") == 0 {
		mutated = true
		for k := rapid.IntRange(1, 3).Draw(rt, "nflips"); k > 0; k-- {
			i := rapid.IntRange(0, len(w)-1).Draw(rt, "pos")
			w[i] ^= 1 << uint(rapid.IntRange(0, 7).Draw(rt, "bit"))
		}
	}
	return w, ft, stale, mutated
}

func TestC08(t *testing.T) {
	Col.Property = "C08"
	ReplayRegress(t, "C08")
	RunProps(t, rpC08(MyTypes()))
	t.Run("volume", func(t *testing.T) { runVolume(t, "C08") })
}

func init() { RapidProps["C08"] = func() []RProp { return rpC08(TypeNames) } }

func rpC08(types []string) (out []RProp) {
	for _, tn := range types {
		tn := tn
		out = append(out, MkProp("C08", "c08", tn, func(rt *rapid.T) *CaseBytes {
			pre, _ := genPrelude(rt, tn, false)
			w, ft, stale, mutated := wireString(rt, tn)
			c := &CaseBytes{Type: tn, W: w, Pre: pre}
			// accepted? (classification only; the oracle decides again on its own)
			_, _, err, pan := LibDecode(tn, w)
			accepted := err == nil && pan == nil
			cls := []string{}
			if len(pre) > 0 {
				cls = append(cls, "after-prior-calls")
			}
			if accepted {
				cls = append(cls, "accepted")
			} else {
				cls = append(cls, "rejected(nothing demanded)")
			}
			nt := accepted && len(w) > 0 && (ft.InteriorPad > 0 || ft.AllPad > 0 || ft.NegOrNaN > 0 || stale || mutated)
			if stale {
				cls = append(cls, "stale-computed-fields")
			}
			if mutated && accepted {
				cls = append(cls, "mutated-and-accepted")
			}
			if ft.AllPad > 0 {
				cls = append(cls, "all-pad-field")
			}
			if ft.InteriorPad > 0 {
				cls = append(cls, "pad-byte-inside-field")
			}
			if ft.NegOrNaN > 0 {
				cls = append(cls, "neg-or-nan")
			}
			Col.Case(Hash64([]byte(tn), w), nt, cls...)
			Col.Program(tn)
			if nt && Col.WantSample("wire") && len(w) < 200 {
				Col.Sample("wire", map[string]any{"type": tn, "w": hexClip(w), "stale": stale, "mutated": mutated})
			}
			return c
		}, oracleC08))
	}
	return
}

// ---------------------------------------------------------------- C15

type CaseC15 struct {
	Type  string   `json:"type"`
	W     HexBytes `json:"w"`
	Dirty *Value   `json:"dirty"`
	Via   string   `json:"via"`            // decode: receiver first decodes Dirty's encoding; fill: fields assigned directly
	Part  *Value   `json:"part,omitempty"` // if set: after that, the receiver is offered only the first Cut mod len bytes of this message's encoding (a partial segment: the attempt fails half-way)
	Cut   int      `json:"cut,omitempty"`
	// Shared: the receiver's earlier content was put together by application code that used ONE element object in
	// several places (every entry of a repeating group, and a nested part of the same type, point to the same object)
	Shared bool `json:"shared,omitempty"`
	// SameBuf: everything this receiver is given arrives through ONE bytes.Buffer object that the receive loop resets
	// and refills (the earlier message, the partial segment, then the bytes under test)
	SameBuf bool `json:"same_buf,omitempty"`
}

// shareParts makes every element of each list of pointers, and each pointer field of the same element type, one object.
func shareParts(rv reflect.Value, depth int) {
	for rv.Kind() == reflect.Pointer || rv.Kind() == reflect.Interface {
		if rv.IsNil() {
			return
		}
		rv = rv.Elem()
	}
	if rv.Kind() != reflect.Struct || depth > 4 {
		return
	}
	shared := map[reflect.Type]reflect.Value{}
	for i := 0; i < rv.NumField(); i++ {
		f := rv.Field(i)
		if !f.CanSet() {
			continue
		}
		if f.Kind() == reflect.Slice && f.Type().Elem().Kind() == reflect.Pointer && f.Len() > 0 {
			first := f.Index(0)
			for j := 1; j < f.Len(); j++ {
				f.Index(j).Set(first)
			}
			shared[f.Type().Elem()] = first
			shareParts(first, depth+1)
		}
	}
	for i := 0; i < rv.NumField(); i++ {
		f := rv.Field(i)
		if !f.CanSet() {
			continue
		}
		if f.Kind() == reflect.Pointer {
			if sh, ok := shared[f.Type()]; ok && !f.IsNil() {
				f.Set(sh)
			} else {
				shareParts(f, depth+1)
			}
		} else if f.Kind() == reflect.Interface {
			shareParts(f, depth+1)
		}
	}
}

func oracleC15(c *CaseC15) *Failure {
	fresh := regByName[c.Type].New()
	fb := bytes.NewBuffer(append([]byte{}, c.W...))
	ferr, fpan, _ := safely(func() error { return DecodeAny(fresh, fb) })
	if fpan != nil {
		return nil // C09
	}
	dirty := regByName[c.Type].New()
	var loopBuf bytes.Buffer // the receive loop's one buffer (SameBuf)
	refill := func(b []byte) *bytes.Buffer {
		if !c.SameBuf {
			return bytes.NewBuffer(append([]byte{}, b...))
		}
		loopBuf.Reset()
		loopBuf.Write(b)
		return &loopBuf
	}
	if c.Via == "decode" {
		enc := Render(c.Dirty, nil).Bytes
		if e, p, _ := safely(func() error { return DecodeAny(dirty, refill(enc)) }); e != nil || p != nil {
			FillStruct(dirty, c.Dirty)
		}
	} else {
		FillStruct(dirty, c.Dirty)
	}
	if c.Shared {
		shareParts(reflect.ValueOf(dirty), 0)
	}
	if c.Part != nil {
		if enc := Render(c.Part, nil).Bytes; len(enc) > 0 {
			_, _, _ = safely(func() error { return DecodeAny(dirty, refill(enc[:c.Cut%len(enc)])) })
		}
	}
	db := refill(c.W)
	derr, dpan, _ := safely(func() error { return DecodeAny(dirty, db) })
	sig := "C15/" + c.Type
	if dpan != nil {
		return failf(sig+"/panic", "Decode into a used receiver panicked (fresh receiver: err=%v): %v", ferr, dpan)
	}
	if (ferr == nil) != (derr == nil) {
		return failf(sig+"/error-differs", "fresh receiver: err=%v; used receiver: err=%v", ferr, derr)
	}
	if ferr != nil {
		return nil
	}
	if fb.Len() != db.Len() {
		return failf(sig+"/consumed-differs", "fresh receiver left %d bytes, used receiver %d", fb.Len(), db.Len())
	}
	fv, e1 := FromStruct(fresh, c.Type)
	dv, e2 := FromStruct(dirty, c.Type)
	if e1 != nil || e2 != nil {
		return failf(sig+"/unrepresentable", "fresh: %v, used: %v", e1, e2)
	}
	if d := Diff(fv, dv); d != "" {
		return failf(sig+"/leftover", "decoding the same bytes into a used receiver gave a different message: %s", d)
	}
	return nil
}

// relatedValue returns a copy of v with one small edit that keeps every length and the byte sum.
func relatedValue(rt *rapid.T, v *Value) *Value {
	c := v.Clone()
	type ref struct {
		val *Value
		i   int
	}
	var texts, nums []ref
	var walk func(x *Value, depth int)
	walk = func(x *Value, depth int) {
		if x == nil || depth > 4 {
			return
		}
		for i, f := range Types[x.Type].Fields {
			switch f.Kind {
			case "fixtext":
				if i != Types[x.Type].FieldIndex(discOf(Types[x.Type])) {
					texts = append(texts, ref{x, i})
				}
			case "num":
				if i != Types[x.Type].FieldIndex(discOf(Types[x.Type])) {
					nums = append(nums, ref{x, i})
				}
			case "obj", "objval", "dyn":
				walk(x.F[i].O, depth+1)
			case "objlist":
				if len(x.F[i].OL) > 0 {
					x.F[i].OL[0] = x.F[i].OL[0].Clone()
					walk(x.F[i].OL[0], depth+1)
				}
			}
		}
	}
	walk(c, 0)
	switch rapid.IntRange(0, 4).Draw(rt, "edit") {
	case 4: // a text and the number right behind it re-split: ("Q1", 23) becomes ("Q12", 3) - the same characters when
		// the two are written one after the other without a separator (keys built by concatenation)
		for tries := 0; tries < 12 && len(texts) >= 1; tries++ {
			a := texts[rapid.IntRange(0, len(texts)-1).Draw(rt, "rs")]
			ts := Types[a.val.Type]
			if a.i+1 >= len(ts.Fields) || ts.Fields[a.i+1].Kind != "num" || strings.HasPrefix(ts.Fields[a.i+1].NType, "float") {
				continue
			}
			f, nf := ts.Fields[a.i], ts.Fields[a.i+1]
			t := refFixedRead(a.val.F[a.i].T, byte(f.Pad), f.Left)
			if len(t) >= f.Width {
				t = t[:f.Width-1] // make room (the incoming message is untouched; only the receiver's copy is edited)
				if len(t) > 0 && !f.Left && t[len(t)-1] == byte(f.Pad) {
					continue
				}
			}
			bits := a.val.F[a.i+1].N & NMask(nf.NType)
			var dec string
			if strings.HasPrefix(nf.NType, "int") {
				sh := uint(64 - 8*NSize(nf.NType))
				dec = strconv.FormatInt(int64(bits<<sh)>>sh, 10)
			} else {
				dec = strconv.FormatUint(bits, 10)
			}
			if len(dec) < 2 {
				// give the incoming number a second digit: not possible here (the incoming message is fixed); try another pair
				continue
			}
			rest := dec[1:]
			if len(rest) > 1 && rest[0] == '0' || rest == "-" {
				continue
			}
			var nb uint64
			if strings.HasPrefix(nf.NType, "int") {
				v, err := strconv.ParseInt(rest, 10, 64)
				if err != nil {
					continue
				}
				nb = uint64(v) & NMask(nf.NType)
			} else {
				v, err := strconv.ParseUint(rest, 10, 64)
				if err != nil {
					continue
				}
				nb = v
			}
			nt := append(append([]byte{}, t...), dec[0])
			if len(t) != len(refFixedRead(a.val.F[a.i].T, byte(f.Pad), f.Left)) {
				// the text was shortened to make room: then the receiver's text is not text+digit of the incoming one; skip
				continue
			}
			a.val.F[a.i].T = refFixedWrite(nt, f.Width, byte(f.Pad), f.Left)
			a.val.F[a.i+1].N = nb
			Col.Class("receiver-holds-text+number-re-split-of-the-incoming-ones", 1)
			return c
		}
		fallthrough
	case 3: // one text decorated with white space around the same content (shifted inside its field)
		for tries := 0; tries < 8 && len(texts) >= 1; tries++ {
			a := texts[rapid.IntRange(0, len(texts)-1).Draw(rt, "td")]
			f := Types[a.val.Type].Fields[a.i]
			t := refFixedRead(a.val.F[a.i].T, byte(f.Pad), f.Left)
			t = bytes.TrimSpace(t)
			if len(t) == 0 || len(t) >= f.Width {
				continue
			}
			room := f.Width - len(t)
			deco := rapid.SampledFrom([]string{" ", "\t", "\u00a0", "  ", "\n"}).Draw(rt, "deco")
			if len(deco) > room {
				deco = " "
			}
			var nt []byte
			if rapid.Bool().Draw(rt, "decolead") {
				nt = append([]byte(deco), t...)
			} else {
				nt = append(append([]byte{}, t...), deco...)
			}
			a.val.F[a.i].T = refFixedWrite(nt, f.Width, byte(f.Pad), f.Left)
			return c
		}
		fallthrough
	case 0: // swap two texts of equal width
		for tries := 0; tries < 8 && len(texts) >= 2; tries++ {
			a := texts[rapid.IntRange(0, len(texts)-1).Draw(rt, "ta")]
			b := texts[rapid.IntRange(0, len(texts)-1).Draw(rt, "tb")]
			wa, wb := Types[a.val.Type].Fields[a.i].Width, Types[b.val.Type].Fields[b.i].Width
			if (a.val != b.val || a.i != b.i) && wa == wb && !bytes.Equal(a.val.F[a.i].T, b.val.F[b.i].T) {
				a.val.F[a.i].T, b.val.F[b.i].T = b.val.F[b.i].T, a.val.F[a.i].T
				return c
			}
		}
		fallthrough
	case 1: // reverse one text
		for tries := 0; tries < 8 && len(texts) >= 1; tries++ {
			a := texts[rapid.IntRange(0, len(texts)-1).Draw(rt, "tr")]
			t := a.val.F[a.i].T
			if len(t) >= 2 && t[0] != t[len(t)-1] {
				r := make(HexBytes, len(t))
				for k := range t {
					r[len(t)-1-k] = t[k]
				}
				a.val.F[a.i].T = r
				return c
			}
		}
		fallthrough
	default: // change one number (swap two of its bytes if possible, else flip a bit)
		if len(nums) > 0 {
			a := nums[rapid.IntRange(0, len(nums)-1).Draw(rt, "nn")]
			n := a.val.F[a.i].N
			sz := NSize(Types[a.val.Type].Fields[a.i].NType)
			if sz >= 2 && byte(n) != byte(n>>8) {
				lo, hi := n&0xff, (n>>8)&0xff
				n = n&^0xffff | lo<<8 | hi
			} else {
				n ^= 1
			}
			a.val.F[a.i].N = n
		}
	}
	return c
}

// stepOneNumber changes one plain number of v by +-1 (a sequence number, an index).
func stepOneNumber(rt *rapid.T, v *Value) {
	ts := Types[v.Type]
	var idx []int
	for i, f := range ts.Fields {
		if f.Kind == "num" && f.Go != discOf(ts) {
			idx = append(idx, i)
		}
	}
	if len(idx) == 0 {
		return
	}
	i := idx[rapid.IntRange(0, len(idx)-1).Draw(rt, "stepfield")]
	if rapid.Bool().Draw(rt, "stepdown") {
		v.F[i].N = (v.F[i].N + 1) & NMask(ts.Fields[i].NType) // the earlier message had the next value: i.e. this one is "one lower"
	} else {
		v.F[i].N = (v.F[i].N - 1) & NMask(ts.Fields[i].NType)
	}
}

var moduleTypesCache = map[string][]string{}

func moduleTypes(m string) []string {
	if l, ok := moduleTypesCache[m]; ok {
		return l
	}
	var l []string
	for _, tn := range TypeNames {
		if Types[tn].Module == m {
			l = append(l, tn)
		}
	}
	moduleTypesCache[m] = l
	return l
}

func fieldStem(name string) string {
	n := strings.ToLower(name)
	for _, p := range []string{"orig", "new", "old", "prev", "ref"} {
		n = strings.TrimPrefix(n, p)
	}
	return n
}

// correlate copies into dst the values of src's fields that have the same name (ignoring an Orig/New/... prefix)
// and kind: an order and its cancel request, a report and its acknowledgement, carry the same identifiers.
var relatedCache = map[string][]string{}

// relatedTypes: the other types of the module ordered by how many field names they share with tn.
func relatedTypes(tn string) []string {
	if l, ok := relatedCache[tn]; ok {
		return l
	}
	stems := map[string]bool{}
	for _, f := range Types[tn].Fields {
		stems[fieldStem(f.Go)] = true
	}
	type sc struct {
		n string
		k int
	}
	var l []sc
	for _, o := range moduleTypes(Types[tn].Module) {
		if o == tn {
			continue
		}
		k := 0
		for _, f := range Types[o].Fields {
			if stems[fieldStem(f.Go)] {
				k++
			}
		}
		l = append(l, sc{o, k})
	}
	sort.SliceStable(l, func(i, j int) bool { return l[i].k > l[j].k })
	out := make([]string, 0, len(l))
	for _, x := range l {
		out = append(out, x.n)
	}
	if len(out) == 0 {
		out = []string{tn}
	}
	relatedCache[tn] = out
	return out
}

func correlate(dst, src *Value) {
	ds, ss := Types[dst.Type], Types[src.Type]
	for i, df := range ds.Fields {
		if df.Go == discOf(ds) {
			continue
		}
		for j, sf := range ss.Fields {
			if fieldStem(df.Go) != fieldStem(sf.Go) || df.Kind != sf.Kind {
				continue
			}
			switch df.Kind {
			case "num":
				dst.F[i].N = src.F[j].N & NMask(df.NType)
			case "fixtext":
				t := src.F[j].T
				if len(t) > df.Width {
					t = t[:df.Width]
				}
				dst.F[i].T = refFixedRead(refFixedWrite(t, df.Width, byte(df.Pad), df.Left), byte(df.Pad), df.Left)
			case "text":
				dst.F[i].T = append(HexBytes{}, src.F[j].T...)
			}
		}
	}
}

func discOf(ts *TypeSchema) string {
	if di := ts.DynIndex(); di >= 0 {
		return ts.Fields[di].Disc
	}
	return ""
}

func listShape(v *Value, out *[]string) {
	if v == nil {
		*out = append(*out, "nil")
		return
	}
	for i, f := range Types[v.Type].Fields {
		x := &v.F[i]
		switch f.Kind {
		case "numlist":
			*out = append(*out, fmt.Sprint(len(x.NL)))
		case "fixtextlist", "textlist":
			*out = append(*out, fmt.Sprint(len(x.TL)))
		case "objlist":
			*out = append(*out, fmt.Sprint(len(x.OL)))
			for _, o := range x.OL {
				listShape(o, out)
			}
		case "obj", "objval":
			listShape(x.O, out)
		case "dyn":
			if x.O == nil {
				*out = append(*out, "absent")
			} else {
				*out = append(*out, x.O.Type)
				listShape(x.O, out)
			}
		}
	}
}

func TestC15(t *testing.T) {
	Col.Property = "C15"
	ReplayRegress(t, "C15")
	RunProps(t, rpC15(MyTypes()))
}

func init() { RapidProps["C15"] = func() []RProp { return rpC15(TypeNames) } }

func rpC15(types []string) (out []RProp) {
	for _, tn := range types {
		tn := tn
		out = append(out, MkProp("C15", "c15", tn, func(rt *rapid.T) *CaseC15 {
			o := DefaultOpts(Wire)
			o.BigProb, o.MaxList = 80, 1000
			wv, _ := GenValue(rt, tn, o)
			w := Render(wv, nil).Bytes
			cls := []string{}
			if len(w) > 0 && rapid.IntRange(0, 9).Draw(rt, "truncate") == 0 {
				w = w[:rapid.IntRange(0, len(w)-1).Draw(rt, "cut")]
				cls = append(cls, "truncated-input(both must fail alike)")
			}
			c := &CaseC15{Type: tn, W: w}
			if rel := rapid.IntRange(0, 3).Draw(rt, "related"); rel == 0 {
				// the receiver holds a message that differs from the incoming one only slightly
				// (one field changed, two equal-width texts swapped, one text reversed: same length, same byte sum)
				c.Via = "decode"
				c.Dirty = relatedValue(rt, wv)
				cls = append(cls, "dirty-is-a-near-copy-of-the-incoming-message")
			} else if rapid.Bool().Draw(rt, "via") {
				c.Via = "decode"
				d, _ := GenValue(rt, tn, o)
				c.Dirty = d
			} else {
				c.Via = "fill"
				oa := DefaultOpts(Arbitrary)
				oa.BigProb, oa.MaxList = 80, 1000
				d, _ := GenValue(rt, tn, oa)
				c.Dirty = d
			}
			cls = append(cls, "dirty-via:"+c.Via)
			if rapid.IntRange(0, 2).Draw(rt, "partial") == 0 {
				// ... and then a decode that failed half-way (a partial segment of the incoming message itself, of a
				// near copy, or of an unrelated message) has left the receiver partly overwritten
				switch rapid.IntRange(0, 2).Draw(rt, "partof") {
				case 0:
					c.Part = wv
				case 1:
					c.Part = relatedValue(rt, wv)
				default:
					c.Part, _ = GenValue(rt, tn, o)
				}
				c.Cut = rapid.IntRange(0, 1<<20).Draw(rt, "partcut")
				cls = append(cls, "receiver-also-holds-a-half-decoded-message")
			}
			if hasVariableParts(tn) && rapid.IntRange(0, 3).Draw(rt, "shared") == 0 {
				c.Shared = true
				cls = append(cls, "receiver-built-with-one-element-object-in-several-places")
			}
			if rapid.IntRange(0, 2).Draw(rt, "samebuf") == 0 {
				c.SameBuf = true
				cls = append(cls, "one-reused-buffer-object-for-all-the-receiver-is-given")
			}
			var a, b []string
			listShape(wv, &a)
			listShape(c.Dirty, &b)
			nt := fmt.Sprint(a) != fmt.Sprint(b)
			if nt {
				cls = append(cls, "receiver-differs-in-list-length-or-part-type")
			}
			if len(cls) > 0 && cls[0] == "dirty-is-a-near-copy-of-the-incoming-message" || len(cls) > 1 && cls[1] == "dirty-is-a-near-copy-of-the-incoming-message" {
				nt = true
			}
			Col.Case(Hash64(JSONOf(c)), nt, cls...)
			Col.Program(tn)
			if nt && Col.WantSample("c15") && len(JSONOf(c)) < 2500 {
				Col.Sample("c15", c)
			}
			return c
		}, oracleC15))
	}
	return
}

// ---------------------------------------------------------------- C16

type CaseC16 struct {
	Type  string   `json:"type"`
	V     *Value   `json:"v"`
	Other *Value   `json:"other"`
	W     HexBytes `json:"w,omitempty"`   // if set: the decode side is given these bytes (a wire string the encoder would not produce: raw fields, stale or slightly wrong lengths, extra bytes) instead of V's encoding
	Pre   []PreOp  `json:"pre,omitempty"` // prior calls: often a decode of a RELATED message (same type with one number stepped, or another type of the protocol carrying the same values in its like-named fields)
}

// scramble changes a library object in place: every number, every list element,
// every nested part (through the existing pointers and slices, not by replacing them).
func scramble(rv reflect.Value, depth int) {
	switch rv.Kind() {
	case reflect.Ptr, reflect.Interface:
		if !rv.IsNil() {
			scramble(rv.Elem(), depth+1)
		}
	case reflect.Struct:
		for i := 0; i < rv.NumField(); i++ {
			if rv.Field(i).CanSet() {
				scramble(rv.Field(i), depth+1)
			}
		}
	case reflect.Slice:
		for i := 0; i < rv.Len(); i++ {
			scramble(rv.Index(i), depth+1)
		}
	case reflect.String:
		rv.SetString("\xAA" + rv.String() + "\x55scrambled")
	case reflect.Int8, reflect.Int16, reflect.Int32, reflect.Int64:
		rv.SetInt(^rv.Int())
	case reflect.Uint8, reflect.Uint16, reflect.Uint32, reflect.Uint64:
		rv.SetUint(^rv.Uint() & (1<<(8*uint(rv.Type().Size())) - 1))
	case reflect.Float32, reflect.Float64:
		rv.SetFloat(-rv.Float() + 1.5)
	}
}

func oracleC16(c *CaseC16) *Failure {
	defer runPrelude(c.Pre)()
	sig := "C16/" + c.Type
	// encode side first: the very first library call on this value writes into a buffer the harness owns
	obj2 := ToStruct(c.V)
	own := make([]byte, 0, 256)
	out := bytes.NewBuffer(own)
	if e, p, _ := safely(func() error { return EncodeAny(obj2, out) }); e != nil || p != nil {
		return nil
	}
	written := append([]byte{}, out.Bytes()...)
	scramble(reflect.ValueOf(obj2), 0)
	var elsewhere bytes.Buffer
	_, _, _ = safely(func() error { return EncodeAny(ToStruct(c.Other), &elsewhere) })
	_, _, _ = safely(func() error { return EncodeAny(obj2, &elsewhere) })
	if !bytes.Equal(out.Bytes(), written) {
		return failf(sig+"/encode-side", "bytes already written changed when the message was modified afterwards (first difference at byte %d)", firstDiff(out.Bytes(), written))
	}
	// the buffer is reused for something else: a later encode of an equal message must not depend on it
	raw := out.Bytes()[:cap(out.Bytes())]
	for i := range raw {
		raw[i] = 0x5A ^ byte(i)
	}
	out.Reset()
	out.WriteString("the buffer now holds something else entirely ..........")
	again, _, err, pan := LibEncode(c.V)
	if err != nil || pan != nil {
		return failf(sig+"/encode-side-retained", "a second encode of an equal message failed after the first output buffer was reused: err=%v panic=%v", err, pan)
	}
	if !bytes.Equal(again, written) {
		return failf(sig+"/encode-side-retained", "after the first output buffer was overwritten and reused, encoding an equal message gives different bytes (first difference at byte %d): the library kept a reference into the caller's buffer", firstDiff(again, written))
	}
	enc := written
	if len(c.W) > 0 {
		enc = c.W
	}
	other, _, _, _ := LibEncode(c.Other)
	// decode side: the harness owns the backing array
	backing := make([]byte, len(enc), len(enc)+len(other)+64)
	copy(backing, enc)
	buf := bytes.NewBuffer(backing)
	obj := regByName[c.Type].New()
	if e, p, _ := safely(func() error { return DecodeAny(obj, buf) }); e != nil || p != nil {
		return nil
	}
	snap, cerr := FromStruct(obj, c.Type)
	if cerr != nil {
		return nil
	}
	snap = snap.Clone()
	fpBefore := DeepFingerprint(obj)
	full := backing[:cap(backing)]
	for i := range full {
		full[i] = 0xA5 ^ byte(i)
	}
	buf.Reset()
	buf.Write(other)
	buf.Write([]byte("reused buffer"))
	for i := range full {
		full[i] ^= 0xFF
	}
	after, cerr := FromStruct(obj, c.Type)
	if cerr != nil {
		return failf(sig+"/decode-side", "message became unrepresentable after the buffer was reused: %v", cerr)
	}
	if d := Diff(snap, after); d != "" {
		return failf(sig+"/decode-side", "decoded message changed when its source buffer was overwritten and reused: %s", d)
	}
	// every field reachable from the message object, also ones the pinned schema does not know (added later)
	if fpAfter := DeepFingerprint(obj); fpAfter != fpBefore {
		return failf(sig+"/decode-side-unlisted-field", "some field of the decoded %s object (outside the wire fields of the pinned schema) changed when the source buffer was overwritten and reused: the object holds a view of the buffer", c.Type)
	}
	return nil
}

func init() {
	registerReplay("c08", oracleC08)
	registerReplay("c15", oracleC15)
	registerReplay("c16", oracleC16)
}

func TestC16(t *testing.T) {
	Col.Property = "C16"
	ReplayRegress(t, "C16")
	RunProps(t, rpC16(MyTypes()))
	t.Run("application-registered-keys", c16LateKeys)
}

func init() { RapidProps["C16"] = func() []RProp { return rpC16(TypeNames) } }

// c16LateKeys: a message whose discriminator is a key the APPLICATION registered (through the table's exported
// Registry...Factory) - a value the library has no constant for. Nothing reachable from the decoded message may
// change when the source buffer is overwritten and reused. Runs last (the registration cannot be undone).
func c16LateKeys(t *testing.T) {
	for ti, tb := range TableList {
		if !MyShare(ti) {
			continue
		}
		reg := lateRegister[tb.QName]
		if reg == nil {
			continue
		}
		holder := holderOf(tb)
		key, wire, ok := lateWireImage(tb, reg)
		if !ok {
			Col.BrokenHarness("cannot locate the part of " + holder)
			continue
		}
		Col.Case(Hash64([]byte(tb.QName), []byte("late16")), true, "decode-side:key-registered-by-the-application")
		for _, off := range []int{0, 3} {
			in := append(make([]byte, 0, len(wire)+off+8), bytes.Repeat([]byte{'#'}, off)...)
			in = append(in, wire...)
			buf := bytes.NewBuffer(in)
			buf.Next(off)
			obj := regByName[holder].New()
			err, pan, _ := safely(func() error { return DecodeAny(obj, buf) })
			if err != nil || pan != nil {
				continue // C12's business
			}
			before := DeepFingerprint(obj)
			full := in[:cap(in)]
			for i := range full {
				full[i] = 0xA7 ^ byte(i*3)
			}
			buf.Reset()
			buf.WriteString("another message arrives in the same receive buffer")
			if after := DeepFingerprint(obj); after != before {
				f := failf("C16/"+holder+"/decode-side", "message carrying the application-registered key %q (table %s) changed when its source buffer was overwritten and reused: %+v", key, tb.Name, obj)
				Col.Violation("C16", "c16late", "late/"+tb.QName, f.Signature, f.Msg, "enumeration", map[string]any{"table": tb.QName, "key": key, "wire": hexClip(wire)})
				t.Errorf("%s: %s", f.Signature, f.Msg)
				break
			}
		}
	}
}

func rpC16(types []string) (out []RProp) {
	for _, tn := range types {
		tn := tn
		out = append(out, MkProp("C16", "c16", tn, func(rt *rapid.T) *CaseC16 {
			o := DefaultOpts(Canonical)
			o.BigProb, o.MaxList = 80, 1000
			v, ft := GenValue(rt, tn, o)
			ov, _ := GenValue(rt, tn, o)
			c := &CaseC16{Type: tn, V: v, Other: ov}
			switch rapid.IntRange(0, 5).Draw(rt, "prior") {
			case 0: // the previous message of the same type: one number stepped by one, possibly one text different
				pv := v.Clone()
				stepOneNumber(rt, pv)
				if rapid.Bool().Draw(rt, "alsotext") {
					pv = relatedValue(rt, pv)
				}
				c.Pre = []PreOp{{Kind: "dec", Type: tn, W: Render(pv, nil).Bytes}}
			case 1: // a message of a related type of the protocol (sharing field names); this message then carries the
				// same values in its like-named fields (an order and its cancel request, a report and its acknowledgement)
				rel := relatedTypes(tn)
				ot := rel[rapid.IntRange(0, min(len(rel), 6)-1).Draw(rt, "othertype")]
				pv, _ := GenValue(rt, ot, o)
				correlate(v, pv)
				c.Pre = []PreOp{{Kind: "dec", Type: ot, W: Render(pv, nil).Bytes}}
			case 2:
				c.Pre, _ = genPrelude(rt, tn, false)
			}
			nt := ft.TextOrList > 0
			cls := []string{}
			if rapid.IntRange(0, 3).Draw(rt, "wire") == 0 {
				// the decode side gets a wire string the encoder would not produce (raw field bytes, stale or slightly wrong
				// computed fields, extra bytes behind the body); whatever the decoder accepts must not alias the buffer
				c.W, _, _, _ = wireString(rt, tn)
				cls = append(cls, "decode-side-given-a-wire-level-string")
			}
			if nt {
				cls = append(cls, "has-text-or-list")
			} else {
				cls = append(cls, "numbers-only")
			}
			if ft.ListNot1 > 0 || ft.BigList > 0 {
				cls = append(cls, "has-list")
			}
			if ft.Dyn > 0 {
				cls = append(cls, "has-dynamic-part")
			}
			Col.Case(Hash64(JSONOf(c)), nt, cls...)
			Col.Program(tn)
			if nt && Col.WantSample("c16") && len(JSONOf(c)) < 2000 {
				Col.Sample("c16", c)
			}
			return c
		}, oracleC16))
	}
	return
}
