package harness

// Native coverage-guided fuzz targets (thorough tier). The first two bytes of the
// input select the message type, the rest is the wire string. Each target carries
// its property's oracle; a failing input is written as a replay file at once
// (the worker process may be killed), the smallest one wins.

import (
	"bytes"
	"encoding/json"
	"fmt"
	"os"
	"path/filepath"
	"testing"

	"pgregory.net/rapid"
)

func fuzzType(data []byte) (string, []byte) {
	if len(data) < 2 {
		return TypeNames[0], nil
	}
	i := (int(data[0])<<8 | int(data[1])) % len(TypeNames)
	return TypeNames[i], data[2:]
}

func fuzzSeeds(f *testing.F) {
	for i, tn := range TypeNames {
		hdr := []byte{byte(i >> 8), byte(i)}
		b := Render(Skeleton(tn, 0), nil).Bytes
		f.Add(append(append([]byte{}, hdr...), b...))
		ins, _ := maxPrefixInputs(tn)
		for k, w := range ins {
			if k < 3 {
				f.Add(append(append([]byte{}, hdr...), w...))
			}
		}
		f.Add(append(append([]byte{}, hdr...), 0xff, 0xff, 0xff, 0xff, 0x7f, 0xff, 0xff, 0xf0))
	}
}

func fuzzFail(t *testing.T, prop, check string, c *CaseBytes, fl *Failure) {
	if wd := os.Getenv("VERIF_WORK"); wd != "" {
		rec := ViolationRec{Property: prop, Check: check, Scope: "gofuzz", Signature: fl.Signature, Failure: fl.Msg, FoundBy: "gofuzz", Case: c}
		b, _ := json.Marshal(rec)
		name := filepath.Join(wd, fmt.Sprintf("fuzzviol.%s.%d.json", prop, len(c.W)))
		_ = os.WriteFile(name, b, 0o644)
	}
	t.Fatalf("%s: %s", fl.Signature, fl.Msg)
}

func FuzzC09(f *testing.F) {
	fuzzSeeds(f)
	f.Fuzz(func(t *testing.T, data []byte) {
		tn, w := fuzzType(data)
		c := &CaseBytes{Type: tn, W: w}
		if fl := oracleC09(c); fl != nil {
			fuzzFail(t, "C09", "c09", c, fl)
		}
	})
}

func FuzzC10(f *testing.F) {
	fuzzSeeds(f)
	f.Fuzz(func(t *testing.T, data []byte) {
		tn, w := fuzzType(data)
		c := &CaseBytes{Type: tn, W: w}
		if fl := oracleC10(c); fl != nil {
			fuzzFail(t, "C10", "c10", c, fl)
		}
	})
}

func FuzzC08(f *testing.F) {
	fuzzSeeds(f)
	f.Fuzz(func(t *testing.T, data []byte) {
		tn, w := fuzzType(data)
		c := &CaseBytes{Type: tn, W: w}
		if fl := oracleC08(c); fl != nil {
			fuzzFail(t, "C08", "c08", c, fl)
		}
	})
}

// FuzzC15: the input is decoded into a fresh receiver and into one that first
// decoded the type's skeleton (lists non-empty, every part present).
func FuzzC15(f *testing.F) {
	fuzzSeeds(f)
	f.Fuzz(func(t *testing.T, data []byte) {
		tn, w := fuzzType(data)
		c := &CaseC15{Type: tn, W: w, Dirty: Skeleton(tn, int(len(w))), Via: "decode"}
		if fl := oracleC15(c); fl != nil {
			if wd := os.Getenv("VERIF_WORK"); wd != "" {
				rec := ViolationRec{Property: "C15", Check: "c15", Scope: "gofuzz", Signature: fl.Signature, Failure: fl.Msg, FoundBy: "gofuzz", Case: c}
				b, _ := json.Marshal(rec)
				_ = os.WriteFile(filepath.Join(wd, fmt.Sprintf("fuzzviol.C15.%d.json", len(w))), b, 0o644)
			}
			t.Fatalf("%s: %s", fl.Signature, fl.Msg)
		}
	})
}

// FuzzRapid drives the rapid properties of one listed property (VERIF_PROPERTY) with the native coverage-guided
// engine: the fuzzer's bytes are the generators' choice sequence (rapid.MakeFuzz), the first draw picks the
// sub-property (type / scenario). Oracles, case format and replay are those of the rapid tiers; a failing case is
// stored as JSON by the worker at once.
func FuzzRapid(f *testing.F) {
	pid := os.Getenv("VERIF_PROPERTY")
	mk := RapidProps[pid]
	if mk == nil {
		f.Skip("VERIF_PROPERTY does not name a property with rapid properties")
	}
	props := mk()
	if len(props) == 0 {
		f.Skip("no rapid properties")
	}
	// seed corpus: choice sequences of several lengths from a fixed splitmix stream, plus all-minimal / all-maximal choices
	x := uint64(0x9E3779B97F4A7C15)
	next := func() uint64 {
		x += 0x9E3779B97F4A7C15
		z := x
		z = (z ^ (z >> 30)) * 0xBF58476D1CE4E5B9
		z = (z ^ (z >> 27)) * 0x94D049BB133111EB
		return z ^ (z >> 31)
	}
	for _, n := range []int{2048, 8192, 32768, 131072} {
		for k := 0; k < 24; k++ {
			b := make([]byte, n)
			for i := 0; i+8 <= n; i += 8 {
				v := next()
				for j := 0; j < 8; j++ {
					b[i+j] = byte(v >> (8 * j))
				}
			}
			f.Add(b)
		}
		f.Add(make([]byte, n))
		ff := make([]byte, n)
		for i := range ff {
			ff[i] = 0xff
		}
		f.Add(ff)
	}
	f.Fuzz(rapid.MakeFuzz(func(rt *rapid.T) {
		i := rapid.IntRange(0, len(props)-1).Draw(rt, "property")
		props[i].Run(rt)
	}))
}

// acceptedExact decodes w as type tn; ok only if the decoder accepts it and re-encoding the result reproduces the
// consumed bytes exactly - then w[:n] is literally "a valid encoding" in the sense of C07/C11.
func acceptedExact(tn string, w []byte) (n int, fp uint64, ok bool) {
	obj := regByName[tn].New()
	buf := bytes.NewBuffer(append([]byte{}, w...))
	if err, pan, _ := safely(func() error { return DecodeAny(obj, buf) }); err != nil || pan != nil {
		return 0, 0, false
	}
	n = len(w) - buf.Len()
	var out bytes.Buffer
	if err, pan, _ := safely(func() error { return EncodeAny(obj, &out) }); err != nil || pan != nil || !bytes.Equal(out.Bytes(), w[:n]) {
		return 0, 0, false
	}
	return n, DeepFingerprint(obj), true
}

type CaseFuzzBytes struct {
	Type string   `json:"type"`
	W    HexBytes `json:"w"`
	Tail HexBytes `json:"tail,omitempty"`
}

// oracleC11Bytes: every strict prefix of a byte string that is exactly the encoding of what it decodes to is rejected.
func oracleC11Bytes(c *CaseFuzzBytes) *Failure {
	n, _, ok := acceptedExact(c.Type, c.W)
	if !ok || n == 0 {
		return nil
	}
	step := 1
	if n > 1024 {
		step = n / 1024
	}
	for k := 0; k < n; k += step {
		obj := regByName[c.Type].New()
		err, pan, _ := safely(func() error { return DecodeAny(obj, bytes.NewBuffer(c.W[:k:k])) })
		if pan != nil {
			return failf("C11/"+c.Type+"/panic", "Decode panicked on the first %d of %d bytes: %v", k, n, pan)
		}
		if err == nil {
			return failf("C11/"+c.Type+"/accepted-prefix", "Decode reported success on the first %d of %d bytes of a valid encoding (%s)", k, n, hexClip(c.W[:n]))
		}
	}
	return nil
}

// oracleC07Bytes: a valid encoding followed by further bytes: exactly the encoding is consumed, the rest is left
// untouched, and the message is the one decoded from the encoding alone.
func oracleC07Bytes(c *CaseFuzzBytes) *Failure {
	n, fp, ok := acceptedExact(c.Type, c.W)
	if !ok {
		return nil
	}
	in := append(append([]byte{}, c.W[:n]...), c.Tail...)
	obj := regByName[c.Type].New()
	buf := bytes.NewBuffer(in)
	err, pan, _ := safely(func() error { return DecodeAny(obj, buf) })
	if pan != nil {
		return failf("C07/"+c.Type+"/panic", "Decode panicked on a valid encoding followed by %d further bytes: %v", len(c.Tail), pan)
	}
	if err != nil {
		return failf("C07/"+c.Type+"/rejected", "Decode rejected a valid message (%d bytes) followed by %d further bytes: %v", n, len(c.Tail), err)
	}
	if !bytes.Equal(buf.Bytes(), c.Tail) {
		return failf("C07/"+c.Type+"/consumed", "a %d-byte message followed by %d further bytes: Decode left %d bytes", n, len(c.Tail), buf.Len())
	}
	if DeepFingerprint(obj) != fp {
		return failf("C07/"+c.Type+"/value", "the message decoded differently when followed by %d further bytes", len(c.Tail))
	}
	return nil
}

func init() {
	registerReplay("c11bytes", oracleC11Bytes)
	registerReplay("c07bytes", oracleC07Bytes)
}

func fuzzFailAny(t *testing.T, prop, check string, c any, size int, fl *Failure) {
	if wd := os.Getenv("VERIF_WORK"); wd != "" {
		rec := ViolationRec{Property: prop, Check: check, Scope: "gofuzz", Signature: fl.Signature, Failure: fl.Msg, FoundBy: "gofuzz", Case: c}
		b, _ := json.Marshal(rec)
		_ = os.WriteFile(filepath.Join(wd, fmt.Sprintf("fuzzviol.%s.%d.json", prop, size)), b, 0o644)
	}
	t.Fatalf("%s: %s", fl.Signature, fl.Msg)
}

func FuzzC11(f *testing.F) {
	fuzzSeeds(f)
	f.Fuzz(func(t *testing.T, data []byte) {
		tn, w := fuzzType(data)
		c := &CaseFuzzBytes{Type: tn, W: w}
		if fl := oracleC11Bytes(c); fl != nil {
			fuzzFailAny(t, "C11", "c11bytes", c, len(w), fl)
		}
	})
}

// FuzzC07: the last quarter of the input serves as the tail.
func FuzzC07(f *testing.F) {
	fuzzSeeds(f)
	f.Fuzz(func(t *testing.T, data []byte) {
		tn, w := fuzzType(data)
		cut := len(w) - len(w)/4
		c := &CaseFuzzBytes{Type: tn, W: w[:cut], Tail: append(HexBytes{}, w[cut:]...)}
		// the encoding may end before cut: whatever lies between belongs to the tail as well
		if n, _, ok := acceptedExact(tn, c.W); ok {
			c.Tail = append(append(HexBytes{}, c.W[n:]...), c.Tail...)
			c.W = c.W[:n]
		}
		if fl := oracleC07Bytes(c); fl != nil {
			fuzzFailAny(t, "C07", "c07bytes", c, len(w), fl)
		}
	})
}
