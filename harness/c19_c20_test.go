package harness

// C19 — the checksum-service registry behaves as one atomic map under any concurrency.
// C20 — independent messages encode/decode in parallel with the sequential results.
// Both binaries are built with -race; the driver turns a race report into a violation.

import (
	"bytes"
	"fmt"
	"runtime"
	"sort"
	"strings"
	"sync"
	"sync/atomic"
	"testing"
	"time"

	"github.com/anishathalye/porcupine"
	"github.com/xinchentechnote/fin-proto-go/codec"
	"pgregory.net/rapid"
)

type testSvc struct {
	name string
	id   int
}

func (s *testSvc) Algorithm() string { return s.name }

type RegOp struct {
	Op   string `json:"op"` // reg get rm clear
	Name string `json:"name,omitempty"`
	ID   int    `json:"id,omitempty"`
	Spin int    `json:"spin,omitempty"` // scheduling hint before the call
}

type CaseC19 struct {
	Procs   int       `json:"gomaxprocs"`
	Threads [][]RegOp `json:"threads"`
	Repeat  int       `json:"repeat"`
}

type regOut struct {
	Ok bool
	ID int
}

// sequential model: state is a canonical string "A=1;B=7;"
func regStateSet(st, name string, id int) string {
	m := regStateParse(st)
	m[name] = id
	return regStateFmt(m)
}
func regStateParse(st string) map[string]int {
	m := map[string]int{}
	for _, kv := range strings.Split(st, ";") {
		if kv == "" {
			continue
		}
		var n string
		var id int
		p := strings.SplitN(kv, "=", 2)
		n = p[0]
		fmt.Sscanf(p[1], "%d", &id)
		m[n] = id
	}
	return m
}
func regStateFmt(m map[string]int) string {
	ks := make([]string, 0, len(m))
	for k := range m {
		ks = append(ks, k)
	}
	sort.Strings(ks)
	var b strings.Builder
	for _, k := range ks {
		fmt.Fprintf(&b, "%s=%d;", k, m[k])
	}
	return b.String()
}

var regModel = porcupine.Model{
	Init: func() interface{} { return "" },
	Step: func(state, input, output interface{}) (bool, interface{}) {
		st := state.(string)
		in := input.(RegOp)
		out := output.(regOut)
		m := regStateParse(st)
		switch in.Op {
		case "reg":
			_, exists := m[in.Name]
			if exists {
				return !out.Ok, st
			}
			if !out.Ok {
				return false, st
			}
			return true, regStateSet(st, in.Name, in.ID)
		case "get":
			id, exists := m[in.Name]
			if !exists {
				return !out.Ok, st
			}
			return out.Ok && out.ID == id, st
		case "rm":
			delete(m, in.Name)
			return true, regStateFmt(m)
		case "clear":
			return true, ""
		}
		return false, st
	},
	Equal: func(a, b interface{}) bool { return a.(string) == b.(string) },
	DescribeOperation: func(input, output interface{}) string {
		in := input.(RegOp)
		out := output.(regOut)
		return fmt.Sprintf("%s(%s,%d)->%v,%d", in.Op, in.Name, in.ID, out.Ok, out.ID)
	},
}

func doRegOp(op RegOp) (out regOut, wrongName string) {
	switch op.Op {
	case "reg":
		out.Ok = codec.Registry(&testSvc{name: op.Name, id: op.ID})
	case "get":
		s, ok := codec.Get(op.Name)
		out.Ok = ok
		if ok {
			ts, isTest := s.(*testSvc)
			if !isTest {
				return out, fmt.Sprintf("Get(%q) returned a %T", op.Name, s)
			}
			out.ID = ts.id
			if ts.name != op.Name {
				return out, fmt.Sprintf("Get(%q) returned the service registered as %q", op.Name, ts.name)
			}
		} else if s != nil {
			return out, fmt.Sprintf("Get(%q) returned (%v, false)", op.Name, s)
		}
	case "rm":
		codec.Remove(op.Name)
	case "clear":
		codec.Clear()
	}
	return out, ""
}

var spinSink atomic.Int64

func spin(n int) {
	for i := 0; i < n; i++ {
		if i%3 == 0 {
			runtime.Gosched()
		} else {
			spinSink.Add(1)
		}
	}
}

// runHistory executes the threads once and returns the recorded history.
func runHistory(c *CaseC19) (ops []porcupine.Operation, wrong string, overlaps int) {
	codec.Clear()
	var clock atomic.Int64
	var mu sync.Mutex
	var wg sync.WaitGroup
	start := make(chan struct{})
	for ti, th := range c.Threads {
		wg.Add(1)
		go func(ti int, th []RegOp) {
			defer wg.Done()
			local := make([]porcupine.Operation, 0, len(th))
			<-start
			for _, op := range th {
				spin(op.Spin)
				call := clock.Add(1)
				out, w := doRegOp(op)
				ret := clock.Add(1)
				if w != "" {
					mu.Lock()
					wrong = w
					mu.Unlock()
				}
				local = append(local, porcupine.Operation{ClientId: ti, Input: op, Call: call, Output: out, Return: ret})
			}
			mu.Lock()
			ops = append(ops, local...)
			mu.Unlock()
		}(ti, th)
	}
	close(start)
	wg.Wait()
	// count pairs of operations on the same name (or a clear) that overlap in time
	for i := range ops {
		for j := i + 1; j < len(ops); j++ {
			a, b := ops[i], ops[j]
			if a.ClientId == b.ClientId {
				continue
			}
			ia, ib := a.Input.(RegOp), b.Input.(RegOp)
			if ia.Name == ib.Name || ia.Op == "clear" || ib.Op == "clear" {
				if a.Call < b.Return && b.Call < a.Return {
					overlaps++
				}
			}
		}
	}
	return
}

func describeHistory(ops []porcupine.Operation) string {
	sort.Slice(ops, func(i, j int) bool { return ops[i].Call < ops[j].Call })
	var b strings.Builder
	for _, o := range ops {
		fmt.Fprintf(&b, "[g%d %d..%d %s] ", o.ClientId, o.Call, o.Return, regModel.DescribeOperation(o.Input, o.Output))
	}
	return b.String()
}

var c19Builtins map[string]any

func saveBuiltins() {
	if c19Builtins != nil {
		return
	}
	c19Builtins = map[string]any{}
	for _, n := range c14Algos {
		if s, ok := codec.Get(n); ok {
			c19Builtins[n] = s
		}
	}
}
func restoreBuiltins() {
	codec.Clear()
	for _, n := range c14Algos {
		if s, ok := c19Builtins[n]; ok {
			codec.Registry(s)
		}
	}
}

func oracleC19(c *CaseC19) *Failure {
	saveBuiltins()
	defer restoreBuiltins()
	old := runtime.GOMAXPROCS(max(1, c.Procs))
	defer runtime.GOMAXPROCS(old)
	totalOverlap := 0
	for r := 0; r < max(1, c.Repeat); r++ {
		ops, wrong, ov := runHistory(c)
		totalOverlap += ov
		if wrong != "" {
			return failf("C19/registry/wrong-service", "%s; history: %s", wrong, describeHistory(ops))
		}
		res := porcupine.CheckOperationsTimeout(regModel, ops, 5*time.Second)
		if res == porcupine.Illegal {
			return failf("C19/registry/not-linearizable", "no sequential order of the calls consistent with real time explains the results: %s", describeHistory(ops))
		}
	}
	c19Overlaps.Add(int64(totalOverlap))
	return nil
}

var c19Overlaps atomic.Int64

// single-winner invariant at larger scale
type CaseC19Win struct {
	Procs      int `json:"gomaxprocs"`
	Contenders int `json:"contenders"`
	Rounds     int `json:"rounds"`
}

func oracleC19Win(c *CaseC19Win) *Failure {
	saveBuiltins()
	defer restoreBuiltins()
	old := runtime.GOMAXPROCS(max(1, c.Procs))
	defer runtime.GOMAXPROCS(old)
	wins := make([]bool, c.Contenders)
	for r := 0; r < c.Rounds; r++ {
		codec.Remove("W")
		var wg sync.WaitGroup
		start := make(chan struct{})
		for g := 0; g < c.Contenders; g++ {
			wg.Add(1)
			go func(g int) {
				defer wg.Done()
				<-start
				wins[g] = codec.Registry(&testSvc{name: "W", id: g + 1})
			}(g)
		}
		close(start)
		wg.Wait()
		n, winner := 0, 0
		for g, w := range wins {
			if w {
				n++
				winner = g + 1
			}
		}
		if n != 1 {
			return failf("C19/registry/winners", "round %d: %d of %d concurrent registrations of one name reported success (GOMAXPROCS=%d)", r, n, c.Contenders, c.Procs)
		}
		s, ok := codec.Get("W")
		if !ok || s.(*testSvc).id != winner {
			return failf("C19/registry/winner-lost", "round %d: registration %d won but a later Get returned %v,%v", r, winner, s, ok)
		}
	}
	return nil
}

// CaseC19Own: every goroutine owns one name and cycles Registry / Get / Remove / Get on it while the others do
// the same on theirs (so writers contend heavily); readers look every name up and check what they get back.
// Per-owner sequential facts must hold: my Registry of my free name succeeds; Get then returns mine; after my
// Remove returned, Get misses; a reader never receives a service registered under another name.
type CaseC19Own struct {
	Procs   int `json:"gomaxprocs"`
	Owners  int `json:"owners"`
	Readers int `json:"readers"`
	Iters   int `json:"iters"`
	Millis  int `json:"millis,omitempty"` // if set: owners keep cycling for this long instead of a fixed number of iterations
}

func oracleC19Own(c *CaseC19Own) *Failure {
	saveBuiltins()
	defer restoreBuiltins()
	old := runtime.GOMAXPROCS(max(1, c.Procs))
	defer runtime.GOMAXPROCS(old)
	codec.Clear()
	var wg sync.WaitGroup
	var mu sync.Mutex
	var first *Failure
	var stop atomic.Bool
	report := func(f *Failure) {
		mu.Lock()
		if first == nil {
			first = f
		}
		mu.Unlock()
		stop.Store(true)
	}
	names := make([]string, c.Owners)
	for i := range names {
		names[i] = fmt.Sprintf("OWN%d", i)
	}
	start := make(chan struct{})
	for o := 0; o < c.Owners; o++ {
		wg.Add(1)
		go func(o int) {
			defer wg.Done()
			<-start
			name := names[o]
			deadline := time.Now().Add(time.Duration(c.Millis) * time.Millisecond)
			for it := 0; (c.Millis == 0 && it < c.Iters || c.Millis > 0 && time.Now().Before(deadline)) && !stop.Load(); it++ {
				mine := &testSvc{name: name, id: o*1000000 + it + 1}
				if !codec.Registry(mine) {
					report(failf("C19/registry/lost-update", "owner %d, iteration %d: Registry(%s) returned false although only this goroutine uses the name and its previous Remove had returned", o, it, name))
					return
				}
				s, ok := codec.Get(name)
				if !ok || s != any(mine) {
					report(failf("C19/registry/lost-update", "owner %d, iteration %d: after Registry(%s) returned true, Get returned (%v,%v) instead of the service just registered", o, it, name, s, ok))
					return
				}
				codec.Remove(name)
				if s, ok := codec.Get(name); ok {
					report(failf("C19/registry/lost-update", "owner %d, iteration %d: after Remove(%s) returned, Get still returns %v", o, it, name, s))
					return
				}
			}
		}(o)
	}
	var rwg sync.WaitGroup
	for r := 0; r < c.Readers; r++ {
		rwg.Add(1)
		go func(r int) {
			defer rwg.Done()
			<-start
			for i := 0; !stop.Load(); i++ {
				name := names[(i+r)%len(names)]
				if s, ok := codec.Get(name); ok {
					if ts, isT := s.(*testSvc); !isT || ts.name != name {
						report(failf("C19/registry/wrong-service", "Get(%q) returned a service registered under another name: %v", name, s))
						return
					}
				}
				if i%4 == 3 {
					runtime.Gosched()
				}
			}
		}(r)
	}
	close(start)
	wg.Wait()
	stop.Store(true)
	rwg.Wait()
	return first
}

func genC19(rt *rapid.T) *CaseC19 {
	c := &CaseC19{Procs: rapid.SampledFrom([]int{2, 4, 16}).Draw(rt, "procs"), Repeat: 4}
	names := []string{"A", "B", "C"}[:rapid.IntRange(1, 3).Draw(rt, "nnames")]
	g := rapid.IntRange(2, 6).Draw(rt, "goroutines")
	id := 0
	for i := 0; i < g; i++ {
		n := rapid.IntRange(1, 6).Draw(rt, "nops")
		var th []RegOp
		for j := 0; j < n; j++ {
			id++
			op := RegOp{Op: rapid.SampledFrom([]string{"reg", "reg", "reg", "get", "get", "get", "rm", "rm", "clear"}).Draw(rt, "op"),
				Spin: rapid.SampledFrom([]int{0, 0, 0, 1, 2, 5, 20}).Draw(rt, "spin")}
			if op.Op != "clear" {
				op.Name = rapid.SampledFrom(names).Draw(rt, "name")
			}
			if op.Op == "reg" {
				op.ID = id
			}
			th = append(th, op)
		}
		c.Threads = append(c.Threads, th)
	}
	return c
}

func init() {
	registerReplay("c19", func(c *CaseC19) *Failure {
		c.Repeat = max(c.Repeat, 3000) // schedule-dependent: re-run the stored history many times
		return oracleC19(c)
	})
	registerReplay("c19win", oracleC19Win)
	registerReplay("c19own", oracleC19Own)
}

func TestC19(t *testing.T) {
	Col.Property = "C19"
	ReplayRegress(t, "C19")
	t.Run("contention", func(t *testing.T) {
		rounds := 25000
		if Thorough() {
			rounds = 400000
		}
		i := 0
		for _, procs := range []int{2, 4, 16} {
			for _, cont := range []int{2, 3, 8} {
				i++
				if !MyShare(i) {
					continue
				}
				c := &CaseC19Win{Procs: procs, Contenders: cont, Rounds: rounds}
				Col.Case(Hash64(JSONOf(c)), true, "contention-rounds")
				Col.Class("contention-rounds-executed", int64(rounds))
				Direct(t, "C19", "c19win", fmt.Sprintf("contention/%d/%d", procs, cont), c, oracleC19Win)
			}
		}
	})
	t.Run("long-histories", runC19Long)
	t.Run("owners", func(t *testing.T) {
		iters := 30000
		if Thorough() {
			iters = 300000
		}
		i := 0
		for _, procs := range []int{2, 4, 16} {
			for _, cfg := range [][2]int{{8, 0}, {2, 4}, {3, 16}} {
				i++
				if !MyShare(i) {
					continue
				}
				n := iters
				c := &CaseC19Own{Procs: procs, Owners: cfg[0], Readers: cfg[1], Iters: n}
				if cfg[1] > 0 {
					// readers looking up names that owners keep removing and re-registering: run for a fixed time
					c.Iters, c.Millis, c.Readers = 0, 1500, 2*procs
					if Thorough() {
						c.Millis = 8000
					}
					n = 0
				}
				Col.Case(Hash64(JSONOf(c)), true, "owner-cycles-under-contention")
				Col.Class("owner-cycles-executed", int64(n*cfg[0]))
				Direct(t, "C19", "c19own", fmt.Sprintf("owners/%d/%d/%d", procs, cfg[0], cfg[1]), c, oracleC19Own)
			}
		}
	})
	t.Run("histories", func(t *testing.T) {
		CheckProp(t, "C19", "c19", "histories", func(rt *rapid.T) *CaseC19 {
			c := genC19(rt)
			before := c19Overlaps.Load()
			// classification needs the execution: run the oracle here once and account for overlaps
			_ = before
			nops := 0
			for _, th := range c.Threads {
				nops += len(th)
			}
			Col.Class(fmt.Sprintf("gomaxprocs:%d", c.Procs), 1)
			Col.Class(fmt.Sprintf("goroutines:%d", len(c.Threads)), 1)
			c19Pending = c
			return c
		}, func(c *CaseC19) *Failure {
			before := c19Overlaps.Load()
			f := oracleC19(c)
			ov := c19Overlaps.Load() - before
			cls := []string{"history"}
			if ov > 0 {
				cls = append(cls, "has-overlapping-ops-on-one-name")
			}
			Col.Case(Hash64(JSONOf(c)), ov > 0, cls...)
			Col.Class("overlapping-pairs-observed", ov)
			if ov > 0 && Col.WantSample("history") {
				Col.Sample("history", c)
			}
			return f
		})
	})
}

var c19Pending *CaseC19

// ---------------------------------------------------------------- C20

type CaseC20 struct {
	Items      []*Value `json:"items"`
	Goroutines int      `json:"goroutines"`
	Rounds     int      `json:"rounds"`
	Procs      int      `json:"gomaxprocs"`
	Salt       uint64   `json:"salt"`
	Lean       bool     `json:"lean,omitempty"`   // goroutines only decode, re-encode and compare bytes (no harness reflection in the loop)
	Millis     int      `json:"millis,omitempty"` // crowd mode: every goroutine keeps calling for this long (so that all of them are descheduled mid-call)
	// ColdFirst: the goroutines see the batch BEFORE any sequential call has touched it (the reference results are
	// computed afterwards): whatever the library builds lazily on first sight of a value or type is built under contention
	ColdFirst bool `json:"cold_first,omitempty"`
}

type c20res struct {
	enc    []byte
	encErr bool
	dec    *Value
	decErr bool
	pan    any
}

// c20Cold: every goroutine encodes and decodes every item once, in its own order, with no earlier call on these values.
func c20Cold(c *CaseC20) [][]c20res {
	got := make([][]c20res, c.Goroutines)
	var wg sync.WaitGroup
	start := make(chan struct{})
	for g := 0; g < c.Goroutines; g++ {
		got[g] = make([]c20res, len(c.Items))
		wg.Add(1)
		go func(g int) {
			defer wg.Done()
			<-start
			for k := range c.Items {
				i := int((splitmix(c.Salt+uint64(g)*15485863) + uint64(k)) % uint64(len(c.Items)))
				v := c.Items[i]
				r := &got[g][i]
				out, _, err, pan := LibEncode(v)
				if pan != nil {
					r.pan = pan
					continue
				}
				r.enc, r.encErr = append([]byte{}, out...), err != nil
				if err == nil {
					d, _, derr, dpan := LibDecode(v.Type, r.enc)
					if dpan != nil {
						r.pan = dpan
						continue
					}
					r.dec, r.decErr = d, derr != nil
				}
			}
		}(g)
	}
	close(start)
	wg.Wait()
	return got
}

// oracleC20Lean: same property, but the goroutines spend their time inside the library (decode into a fresh
// object, re-encode, compare bytes) instead of in the harness' reflection; used for crowds.
func oracleC20Lean(c *CaseC20) *Failure {
	old := runtime.GOMAXPROCS(max(1, c.Procs))
	defer runtime.GOMAXPROCS(old)
	encs := make([][]byte, len(c.Items))
	for i, v := range c.Items {
		out, _, err, pan := LibEncode(v)
		if err != nil || pan != nil {
			return nil
		}
		encs[i] = append([]byte{}, out...)
		if d, _, derr, dpan := LibDecode(v.Type, out); derr != nil || dpan != nil || Diff(d, Computed(v)) != "" {
			return nil // sequential defect: other properties' business
		}
	}
	var wg sync.WaitGroup
	var mu sync.Mutex
	var first *Failure
	report := func(f *Failure) {
		mu.Lock()
		if first == nil {
			first = f
		}
		mu.Unlock()
	}
	var bad atomic.Int64
	start := make(chan struct{})
	for g := 0; g < c.Goroutines; g++ {
		wg.Add(1)
		go func(g int) {
			defer wg.Done()
			<-start
			var out bytes.Buffer
			deadline := time.Now().Add(time.Duration(c.Millis) * time.Millisecond)
			for r := 0; (r < c.Rounds || c.Millis > 0 && time.Now().Before(deadline)) && bad.Load() == 0; r++ {
				for k := range c.Items {
					i := (g + r + k) % len(c.Items)
					obj := regByName[c.Items[i].Type].New()
					in := bytes.NewBuffer(append([]byte{}, encs[i]...))
					err, pan, _ := safely(func() error { return DecodeAny(obj, in) })
					if pan != nil || err != nil {
						bad.Add(1)
						report(failf("C20/"+c.Items[i].Type+"/decode-differs", "goroutine %d of %d, round %d: Decode of a message that decodes fine alone returned err=%v panic=%v", g, c.Goroutines, r, err, pan))
						return
					}
					out.Reset()
					err, pan, _ = safely(func() error { return EncodeAny(obj, &out) })
					if pan != nil || err != nil || !bytes.Equal(out.Bytes(), encs[i]) {
						bad.Add(1)
						report(failf("C20/"+c.Items[i].Type+"/encode-differs", "goroutine %d of %d, round %d: decode+encode in parallel does not reproduce the bytes it reproduces alone (err=%v panic=%v, first difference at %d)", g, c.Goroutines, r, err, pan, firstDiff(out.Bytes(), encs[i])))
						return
					}
				}
			}
		}(g)
	}
	close(start)
	wg.Wait()
	return first
}

func oracleC20(c *CaseC20) *Failure {
	if c.Goroutines > 1000 || c.Lean {
		return oracleC20Lean(c)
	}
	old := runtime.GOMAXPROCS(max(1, c.Procs))
	defer runtime.GOMAXPROCS(old)
	type ref struct {
		enc    []byte
		encErr bool
		dec    *Value
		decErr bool
	}
	var cold [][]c20res
	if c.ColdFirst {
		cold = c20Cold(c)
	}
	refs := make([]ref, len(c.Items))
	for i, v := range c.Items {
		out, _, err, pan := LibEncode(v)
		if pan != nil {
			return nil // C17
		}
		refs[i].enc, refs[i].encErr = append([]byte{}, out...), err != nil
		if err == nil {
			d, _, derr, dpan := LibDecode(v.Type, out)
			if dpan != nil {
				return nil
			}
			refs[i].dec, refs[i].decErr = d, derr != nil
		}
	}
	for g := range cold {
		for i, r := range cold[g] {
			tn := c.Items[i].Type
			if r.pan != nil {
				return failf("C20/"+tn+"/panic", "goroutine %d of %d, first call on this value in the process: panicked only when run in parallel: %v", g, c.Goroutines, r.pan)
			}
			if r.encErr != refs[i].encErr || !bytes.Equal(r.enc, refs[i].enc) {
				return failf("C20/"+tn+"/encode-differs", "goroutine %d of %d (first calls on these values, made in parallel): Encode gave %d bytes (err=%v), alone %d bytes (err=%v); first difference at %d", g, c.Goroutines, len(r.enc), r.encErr, len(refs[i].enc), refs[i].encErr, firstDiff(r.enc, refs[i].enc))
			}
			if !r.encErr {
				if r.decErr != refs[i].decErr {
					return failf("C20/"+tn+"/decode-differs", "goroutine %d of %d (first calls, in parallel): Decode failed=%v, alone failed=%v", g, c.Goroutines, r.decErr, refs[i].decErr)
				}
				if !r.decErr {
					if df := Diff(r.dec, refs[i].dec); df != "" {
						return failf("C20/"+tn+"/decode-differs", "goroutine %d of %d (first calls, in parallel): Decode result differs from the sequential one: %s", g, c.Goroutines, df)
					}
				}
			}
		}
	}
	var wg sync.WaitGroup
	fails := make([]*Failure, c.Goroutines)
	start := make(chan struct{})
	for g := 0; g < c.Goroutines; g++ {
		wg.Add(1)
		go func(g int) {
			defer wg.Done()
			<-start
			for r := 0; r < c.Rounds; r++ {
				for k := range c.Items {
					// each goroutine walks the items in its own order
					i := int((splitmix(c.Salt+uint64(g)*7919+uint64(r)*104729) + uint64(k)) % uint64(len(c.Items)))
					v := c.Items[i]
					out, sameObj, err, pan := LibEncode(v) // own object, own buffer
					if pan != nil {
						fails[g] = failf("C20/"+v.Type+"/panic", "Encode panicked only when run in parallel: %v", pan)
						return
					}
					if (err != nil) != refs[i].encErr || !bytes.Equal(out, refs[i].enc) {
						fails[g] = failf("C20/"+v.Type+"/encode-differs", "goroutine %d round %d: parallel Encode gave %d bytes (err=%v), alone %d bytes (err=%v); first difference at %d", g, r, len(out), err, len(refs[i].enc), refs[i].encErr, firstDiff(out, refs[i].enc))
						return
					}
					if err == nil {
						var d *Value
						var derr error
						var dpan any
						if (g+r+k)%3 == 0 {
							// the goroutine reuses its OWN message object: the one it has just encoded now receives a message
							d, _, derr, dpan = LibDecodeInto(sameObj, v.Type, refs[i].enc)
						} else {
							d, _, derr, dpan = LibDecode(v.Type, refs[i].enc)
						}
						if dpan != nil {
							fails[g] = failf("C20/"+v.Type+"/panic", "Decode panicked only when run in parallel: %v", dpan)
							return
						}
						if (derr != nil) != refs[i].decErr {
							fails[g] = failf("C20/"+v.Type+"/decode-differs", "goroutine %d: parallel Decode err=%v, alone err=%v", g, derr, refs[i].decErr)
							return
						}
						if derr == nil {
							if df := Diff(d, refs[i].dec); df != "" {
								fails[g] = failf("C20/"+v.Type+"/decode-differs", "goroutine %d round %d: parallel Decode result differs from the sequential one: %s", g, r, df)
								return
							}
						}
					}
				}
			}
		}(g)
	}
	close(start)
	wg.Wait()
	for _, f := range fails {
		if f != nil {
			return f
		}
	}
	return nil
}

func init() { registerReplay("c20", oracleC20) }

var c20lt []string

// c20ListTypes: the message types that carry a repeating group (object list).
func c20ListTypes() []string {
	if c20lt == nil {
		for _, tn := range TypeNames {
			for _, f := range Types[tn].Fields {
				if f.Kind == "objlist" {
					c20lt = append(c20lt, tn)
					break
				}
			}
		}
	}
	return c20lt
}

// c20Crowd: "any number of goroutines" - a crowd of 3000, each busy long enough to be preempted in the middle
// of a call, all decoding/encoding messages with repeating groups (the longest-running calls).
func c20Crowd(t *testing.T) {
	ncases := 1
	if Thorough() {
		ncases = 5
	}
	for k := 0; k < ncases; k++ {
		c := rapid.Custom(func(rt *rapid.T) *CaseC20 {
			c := &CaseC20{Goroutines: 2500, Rounds: 1, Millis: 1500, Procs: rapid.SampledFrom([]int{4, 16}).Draw(rt, "procs"), Salt: rapid.Uint64().Draw(rt, "salt")}
			for i := 0; i < 4; i++ {
				tn := rapid.SampledFrom(c20ListTypes()).Draw(rt, "listtype")
				v, _ := GenValue(rt, tn, GenOpts{Mode: Canonical, MaxList: 500, BigProb: 1})
				c.Items = append(c.Items, v)
			}
			return c
		}).Example(int(EnvSeed()%1000003) + k)
		Col.Case(Hash64(JSONOf(c)), true, "crowd-of-2500-goroutines")
		Col.Class("parallel-encode-decode-calls", int64(c.Goroutines*c.Rounds*len(c.Items)*2))
		if !Direct(t, "C20", "c20", fmt.Sprintf("crowd/%d", k), c, oracleC20) {
			return
		}
	}
}

func TestC20(t *testing.T) {
	Col.Property = "C20"
	ReplayRegress(t, "C20")
	t.Run("services", runC20Svc)
	t.Run("crowd", c20Crowd)
	t.Run("batches", func(t *testing.T) {
		CheckProp(t, "C20", "c20", "batches", func(rt *rapid.T) *CaseC20 {
			n := rapid.IntRange(8, 48).Draw(rt, "n")
			c := &CaseC20{Goroutines: rapid.SampledFrom([]int{2, 8, 32}).Draw(rt, "g"), Rounds: rapid.IntRange(1, 4).Draw(rt, "rounds"),
				Procs: rapid.SampledFrom([]int{2, 4, 16}).Draw(rt, "procs"), Salt: rapid.Uint64().Draw(rt, "salt")}
			if c.Goroutines > 1000 { // "any number of goroutines": a crowd, each doing little
				n, c.Rounds = rapid.IntRange(3, 6).Draw(rt, "ncrowd"), 6 // long enough for goroutines to be preempted mid-call
			}
			mods := map[string]bool{}
			ck, ext := 0, 0
			heavy := rapid.IntRange(0, 7).Draw(rt, "heavy") == 7
			if heavy {
				n = 3
				c.Goroutines = rapid.SampledFrom([]int{2, 4, 8}).Draw(rt, "gheavy")
				c.Rounds = rapid.IntRange(4, 8).Draw(rt, "rheavy")
				c.Lean = true
			}
			for i := 0; i < n; i++ {
				var tn string
				switch rapid.IntRange(0, 3).Draw(rt, "pick") {
				case 0:
					tn = rapid.SampledFrom(ckFrames).Draw(rt, "frame")
				case 1:
					tn = frameOf(rapid.SampledFrom(ModuleIDs).Draw(rt, "mod"))
				default:
					tn = rapid.SampledFrom(TypeNames).Draw(rt, "type")
				}
				if c.Goroutines > 1000 {
					tn = rapid.SampledFrom(c20ListTypes()).Draw(rt, "listtype")
				}
				o := GenOpts{Mode: Canonical, MaxList: 300, BigProb: 50}
				if c.Goroutines > 1000 {
					o.BigProb = 2
				}
				if heavy && i < 3 {
					// several big frames in flight at once (services and codecs that switch strategy for large inputs)
					tn = frameOf(rapid.SampledFrom([]string{"sse", "szse", "szse", "sample"}).Draw(rt, "heavymod"))
					o = GenOpts{Mode: Canonical, MaxList: 25000, BigProb: 1}
				}
				if !heavy && c.Goroutines <= 1000 && rapid.IntRange(0, 3).Draw(rt, "arbitrary") == 0 {
					// any encodable value, not only canonical ones: parts left out, over-long or all-pad text (what the
					// goroutines get must still be what they get alone)
					o.Mode = Arbitrary
				}
				v, ft := GenValue(rt, tn, o)
				c.Items = append(c.Items, v)
				mods[Types[tn].Module] = true
				if ckFieldName(Types[tn]) != "" {
					ck++
				}
				if ft.Dyn > 0 {
					ext++
				}
			}
			refused := 0
			if !heavy && c.Goroutines <= 1000 && rapid.IntRange(0, 2).Draw(rt, "withrefused") == 0 {
				// some goroutines' messages are refused by the encoder half-way (a message whose extension was left out
				// under an application id that has none; the same inside its frame): an error path running beside
				// the others' successful calls
				for k := rapid.IntRange(1, 3).Draw(rt, "nrefused"); k > 0; k-- {
					tb := TableList[rapid.IntRange(0, len(TableList)-1).Draw(rt, "rtable")]
					holder := holderOf(tb)
					hts := Types[holder]
					if hts.IsFrame() {
						continue
					}
					g := &gen{rt: rt, feat: &Features{}, mult: 1}
					key := g.unregisteredKey("rkey", tb, &hts.Fields[hts.FieldIndex(hts.Fields[hts.DynIndex()].Disc)])
					hv := holderWithKeyRT(rt, tb, key, false, "")
					item := hv
					if rapid.Bool().Draw(rt, "inframe") {
						// the frame of the module with this message as its body
						fr := frameOf(tb.Module)
						fts := Types[fr]
						ftb := TableOf(fts, &fts.Fields[fts.DynIndex()])
						for _, fk := range ftb.Order {
							if ftb.TypeFor(fk) == holder {
								fv, _ := GenValue(rt, fr, GenOpts{Mode: Canonical, MaxList: 20, ForceKey: fk})
								fv.F[fts.DynIndex()].O = hv
								item = fv
								break
							}
						}
					}
					c.Items = append(c.Items, item)
					n++
					refused++
				}
			}
			nt := len(mods) >= 3 && ck >= 1 && ext >= 1
			cls := []string{fmt.Sprintf("goroutines:%d", c.Goroutines), fmt.Sprintf("gomaxprocs:%d", c.Procs)}
			if !heavy && c.Goroutines <= 1000 && rapid.Bool().Draw(rt, "coldfirst") {
				c.ColdFirst = true
				cls = append(cls, "parallel-calls-first(values never seen by a sequential call)")
			}
			if refused > 0 {
				cls = append(cls, "batch-with-messages-the-encoder-refuses-half-way")
			}
			if nt {
				cls = append(cls, "mixed>=3-protocols+checksummed-frame+table-lookup")
			}
			Col.Case(Hash64(JSONOf(c)), nt, cls...)
			Col.Class("parallel-encode-decode-calls", int64(c.Goroutines*c.Rounds*n*2))
			for _, v := range c.Items {
				Col.Program(v.Type)
			}
			if nt && Col.WantSample("batch") {
				types := []string{}
				for _, v := range c.Items {
					types = append(types, v.Type)
				}
				Col.Sample("batch", map[string]any{"goroutines": c.Goroutines, "rounds": c.Rounds, "gomaxprocs": c.Procs, "item_types": types, "first_item": c.Items[0]})
			}
			return c
		}, oracleC20)
	})
}
