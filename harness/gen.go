package harness

// rapid generators driven by the pinned schema. All randomness comes from rapid
// draws (so cases shrink and replay); long lists/texts are expanded
// deterministically from a drawn (length, salt) pair.

import (
	"bytes"
	"math"
	"sort"
	"strconv"
	"strings"

	"pgregory.net/rapid"
)

type Mode int

const (
	Canonical Mode = iota // domain of C01/C07/C11: values that fit their wire fields
	Arbitrary             // domain of C02/C06/C17: anything constructible (within prefix limits)
	Wire                  // wire-level values: raw N bytes per fixed field, registered keys
)

type GenOpts struct {
	Mode     Mode
	MaxList  int    // upper bound for "big" list lengths and long texts (<= prefix maximum is enforced separately)
	BigProb  int    // 1-in-N chance that a list/text takes a big length (0 = never)
	NoAbsent bool   // Arbitrary mode without absent parts (for checks that need must-succeed encodes)
	ForceKey string // if non-empty: the top-level type's dynamic part uses this registered key
	HugeObj  int    // 1-in-N chance that a 32-bit-count object list takes more than 2^22 / about 1.5 million elements (thorough tier only; 0 = never)
	HugeProb int    // 1-in-N chance that a 32-bit-prefixed text/list takes a length around 2^16..2^20 / 10^5 / 10^6 (0 = never)
}

// Features of a generated value, used for non-triviality rules and class histograms.
type Features struct {
	ShortText    int // fixed text shorter than its field
	InteriorPad  int // pad byte in the interior or on the non-pad side
	NegOrNaN     int
	ListNot1     int // lists whose length != 1
	BigList      int // lists longer than 255
	MaxList      int // lists exactly at the prefix maximum
	Dyn          int // dynamic parts present
	Absent       int // absent (nil) nested/dynamic parts
	Unregistered int // absent part under an unregistered key
	Mismatch     int // present part that is not the pinned type for its key
	Overlong     int // fixed text longer than its field
	AllPad       int // fixed text consisting only of pad bytes
	NilLists     int
	TextOrList   int // number of text or list fields (things that could alias)
	Fields       int
	WireNonCanon int // raw field whose canonical re-encoding would differ (pad on the pad side inside data etc.)
}

func (f *Features) NontrivialC01() bool {
	return f.ShortText > 0 || f.InteriorPad > 0 || f.NegOrNaN > 0 || f.ListNot1 > 0 || f.Dyn > 0
}

func (f *Features) Classes() []string {
	var c []string
	add := func(n int, s string) {
		if n > 0 {
			c = append(c, s)
		}
	}
	add(f.ShortText, "short-text")
	add(f.InteriorPad, "interior-pad")
	add(f.NegOrNaN, "neg-or-nan")
	add(f.ListNot1, "list-len!=1")
	add(f.BigList, "list>255")
	add(f.MaxList, "list=prefix-max")
	add(f.Dyn, "dyn-part")
	add(f.Absent, "absent-part")
	add(f.Unregistered, "unregistered-key")
	add(f.Mismatch, "part/key-mismatch")
	add(f.Overlong, "overlong-text")
	add(f.AllPad, "all-pad-text")
	add(f.NilLists, "nil-list")
	return c
}

type gen struct {
	rt   *rapid.T
	o    GenOpts
	feat *Features
	mult int // product of the lengths of the enclosing object lists (bounds the total size of a value)
	// values already used in this message: now and then a field repeats one (coincidences such as
	// "two fields equal" are otherwise practically never generated)
	seenNums  []uint64
	seenTexts [][]byte
	hugeCap   int // upper bound for "huge" lengths of the list being generated (object lists are costly per element)
}

var (
	numBoundaries = []uint64{0, 1, 2, 0x7f, 0x80, 0xff, 0x100, 0x7fff, 0x8000, 0xffff, 0x10000, 0x7fffffff, 0x80000000, 0xffffffff,
		0x100000000, 0x7fffffffffffffff, 0x8000000000000000, 0xffffffffffffffff, 0x0102030405060708, 0xfffffffffffffffe}
	f32Special = []uint64{0x7fc00000, 0x7fa00000, 0xffc00001, 0x7f800000, 0xff800000, 0x80000000, 0x00000001, 0x3f800000, 0x7f800001}
	f64Special = []uint64{0x7ff8000000000000, 0x7ff4000000000000, 0xfff8000000000001, 0x7ff0000000000000, 0xfff0000000000000,
		0x8000000000000000, 0x0000000000000001, 0x3ff0000000000000, 0x7ff0000000000001}
)

func (g *gen) num(label, ntype string) uint64 {
	var v uint64
	switch strings.TrimPrefix(ntype, "def-") {
	case "float32":
		if g.rt != nil && rapid.IntRange(0, 2).Draw(g.rt, label+".sp") == 0 {
			v = rapid.SampledFrom(f32Special).Draw(g.rt, label+".f")
		} else {
			v = rapid.Uint64().Draw(g.rt, label)
		}
	case "float64":
		if rapid.IntRange(0, 2).Draw(g.rt, label+".sp") == 0 {
			v = rapid.SampledFrom(f64Special).Draw(g.rt, label+".f")
		} else {
			v = rapid.Uint64().Draw(g.rt, label)
		}
	default:
		switch bd := rapid.IntRange(0, 11).Draw(g.rt, label+".bd"); {
		case bd < 4:
			v = rapid.SampledFrom(numBoundaries).Draw(g.rt, label+".b")
		case bd == 11:
			if n, ok := dictNumber(g.rt, label); ok {
				v = n + uint64(rapid.SampledFrom([]int{0, 0, 1, -1}).Draw(g.rt, label+".dn"))
				break
			}
			fallthrough
		default:
			v = rapid.Uint64().Draw(g.rt, label)
		}
	}
	v &= NMask(ntype)
	g.noteNum(ntype, v)
	return v
}

func (g *gen) noteNum(ntype string, v uint64) {
	ntype = strings.TrimPrefix(ntype, "def-")
	switch ntype {
	case "float32":
		if f := math.Float32frombits(uint32(v)); f != f || v&0x80000000 != 0 {
			g.feat.NegOrNaN++
		}
	case "float64":
		if f := math.Float64frombits(v); f != f || v&(1<<63) != 0 {
			g.feat.NegOrNaN++
		}
	case "int8", "int16", "int32", "int64":
		if v&(uint64(1)<<(8*uint(NSize(ntype))-1)) != 0 {
			g.feat.NegOrNaN++
		}
	}
}

// canonicalise by construction: remove pad bytes from the pad side.
func stripPadSide(b []byte, pad byte, left bool) []byte { return refFixedRead(b, pad, left) }

func (g *gen) noteFixed(t []byte, f *Field) {
	pad := byte(f.Pad)
	if len(t) < f.Width {
		g.feat.ShortText++
	}
	if len(t) > f.Width {
		g.feat.Overlong++
	}
	if len(t) > 0 && bytes.Count(t, []byte{pad}) == len(t) {
		g.feat.AllPad++
	}
	if bytes.IndexByte(t, pad) >= 0 {
		g.feat.InteriorPad++
	}
}

func (g *gen) fixtext(label string, f *Field) HexBytes {
	pad := byte(f.Pad)
	var t []byte
	if len(g.seenTexts) > 0 && rapid.IntRange(0, 11).Draw(g.rt, label+".rep") == 11 {
		// repeat an earlier text of this message, or the wire image of an earlier field
		t = append([]byte{}, g.seenTexts[rapid.IntRange(0, len(g.seenTexts)-1).Draw(g.rt, label+".repi")]...)
		switch g.o.Mode {
		case Canonical:
			if len(t) > f.Width {
				t = t[:f.Width]
			}
			t = stripPadSide(t, pad, f.Left)
		case Wire:
			t = refFixedWrite(t, f.Width, pad, f.Left)
		}
		g.noteFixed(t, f)
		g.feat.TextOrList++
		g.remember(t, f)
		return t
	}
	switch g.o.Mode {
	case Canonical:
		var l int
		switch rapid.IntRange(0, 4).Draw(g.rt, label+".lc") {
		case 0, 1:
			l = f.Width
		case 2:
			l = 0
		case 3:
			l = max(0, f.Width-1)
		default:
			l = rapid.IntRange(0, f.Width).Draw(g.rt, label+".len")
		}
		t = stripPadSide(genBytesBiased(g.rt, label, l, pad), pad, f.Left)
	case Arbitrary:
		t = genTextAround(g.rt, label, f.Width, pad)
	case Wire:
		t = genBytesBiased(g.rt, label, f.Width, pad)
		if !bytes.Equal(refFixedWrite(refFixedRead(t, pad, f.Left), f.Width, pad, f.Left), t) {
			g.feat.WireNonCanon++ // cannot happen for a single pad byte, kept as a self-check class
		}
	}
	g.noteFixed(t, f)
	g.feat.TextOrList++
	if t == nil {
		t = []byte{}
	}
	g.remember(t, f)
	return t
}

// remember keeps a generated text and its wire image for later repetition within the same message.
func (g *gen) remember(t []byte, f *Field) {
	if len(g.seenTexts) < 64 && len(t) > 0 && len(t) <= 64 {
		g.seenTexts = append(g.seenTexts, t)
		if img := refFixedWrite(t, f.Width, byte(f.Pad), f.Left); f.Width <= 64 && !bytes.Equal(img, t) {
			g.seenTexts = append(g.seenTexts, img)
		}
	}
}

func expandBytes(n int, salt uint64) []byte {
	out := make([]byte, n)
	for i := 0; i < n; i += 8 {
		x := splitmix(salt + uint64(i))
		for j := 0; j < 8 && i+j < n; j++ {
			out[i+j] = byte(x >> (8 * uint(j)))
		}
	}
	return out
}

var interestingLens = []int{15, 16, 17, 31, 32, 33, 63, 64, 65, 99, 100, 101, 127, 128, 129, 254, 255, 256, 257, 511, 512, 513, 999, 1000, 1001, 1023, 1024, 1025,
	2047, 2048, 2049, 4095, 4096, 4097, 8191, 8192, 8193, 9999, 10000, 10001, 16383, 16384, 16385, 32767, 32768, 32769, 65534, 65535}

var hugeLens = []int{65536, 65537, 99999, 100000, 100001, 131071, 131072, 131073, 262143, 262144, 262145, 524287, 524288, 524289,
	999995, 999996, 999997, 999998, 999999, 1000000, 1000001, 1048575, 1048576, 1048577, 1048600, 1100000, 1200000, 16777215, 16777216, 16777217, 16781876}

// length of a list or prefixed text: mostly tiny, sometimes around 255/256, rarely big.
func (g *gen) length(label string, prefixMax uint64) int {
	capBig := g.o.MaxList
	if uint64(capBig) > prefixMax {
		capBig = int(prefixMax)
	}
	if g.mult > 1 {
		// inside an object list: keep the whole value below ~70000 leaf elements
		c := max(2, 70000/g.mult)
		if c < 300 {
			return rapid.IntRange(0, min(c, 5)).Draw(g.rt, label+".len")
		}
		capBig = min(capBig, c)
	}
	if g.o.HugeProb > 0 && g.mult <= 1 && prefixMax >= 1<<20 && rapid.IntRange(0, g.o.HugeProb-1).Draw(g.rt, label+".huge") == g.o.HugeProb-1 {
		// 32-bit prefixes only: lengths around 2^16..2^20 and 10^5, 10^6
		l := rapid.SampledFrom(hugeLens).Draw(g.rt, label+".hlen")
		if g.hugeCap > 0 && l > g.hugeCap {
			l = g.hugeCap
		}
		return l
	}
	if g.o.BigProb > 0 && capBig > 300 && rapid.IntRange(0, g.o.BigProb-1).Draw(g.rt, label+".big") == g.o.BigProb-1 { // max draw, so shrinking moves away from big
		switch rapid.IntRange(0, 3).Draw(g.rt, label+".bigc") {
		case 0:
			return capBig
		case 1:
			return capBig - 1
		default:
			return rapid.IntRange(258, capBig).Draw(g.rt, label+".biglen")
		}
	}
	switch rapid.IntRange(0, 9).Draw(g.rt, label+".lc") {
	case 0, 1:
		return 0
	case 2, 3:
		return 1
	case 4, 5, 6:
		return rapid.IntRange(2, 5).Draw(g.rt, label+".len")
	case 7:
		return rapid.IntRange(0, 40).Draw(g.rt, label+".len")
	case 8:
		// lengths around powers of two and round decimal numbers (thresholds of batching, caches, limits)
		l := rapid.SampledFrom(interestingLens).Draw(g.rt, label+".ilen")
		if l > capBig || g.mult > 1 && l > 300 {
			l = rapid.SampledFrom([]int{254, 255, 256, 257}).Draw(g.rt, label+".len")
		}
		return min(int(prefixMax), l)
	default:
		return rapid.IntRange(0, 12).Draw(g.rt, label+".len")
	}
}

func (g *gen) noteList(n int, prefixMax uint64) {
	g.feat.TextOrList++
	if n != 1 {
		g.feat.ListNot1++
	}
	if n > 255 {
		g.feat.BigList++
	}
	if uint64(n) == prefixMax {
		g.feat.MaxList++
	}
}

func (g *gen) text(label string, prefix string) HexBytes {
	if rapid.IntRange(0, 15).Draw(g.rt, label+".dict") == 15 {
		if w, ok := dictWord(g.rt, label); ok {
			g.feat.TextOrList++
			return append(HexBytes{}, w...)
		}
	}
	n := g.length(label, NMask(prefix))
	g.feat.TextOrList++
	if n > 64 {
		if rapid.IntRange(0, 3).Draw(g.rt, label+".fill") == 0 { // a long run of one byte
			return bytes.Repeat([]byte{rapid.SampledFrom([]byte{0xff, 0x00, 0x80, ' ', '0'}).Draw(g.rt, label+".fb")}, n)
		}
		return expandBytes(n, rapid.Uint64().Draw(g.rt, label+".salt"))
	}
	t := genBytesBiased(g.rt, label, n, ' ')
	if t == nil {
		t = []byte{}
	}
	return t
}

func (g *gen) nilList(label string) bool {
	if g.o.Mode == Arbitrary && rapid.IntRange(0, 7).Draw(g.rt, label+".nil") == 0 {
		g.feat.NilLists++
		g.feat.ListNot1++
		g.feat.TextOrList++
		return true
	}
	return false
}

// unregistered key of a table, canonical for its field (so that it is unregistered on the wire too).
func (g *gen) unregisteredKey(label string, tb *Table, df *Field) string {
	for try := 0; ; try++ {
		var k string
		if tb.KeyType == "text" {
			var b []byte
			switch rapid.IntRange(0, 6).Draw(g.rt, label+".uk") {
			case 6:
				if w, ok := dictWord(g.rt, label); ok {
					b = w
				}
			case 0:
				b = []byte(strconv.Itoa(rapid.IntRange(0, 999).Draw(g.rt, label+".n")))
			case 1:
				r := tb.Order[rapid.IntRange(0, len(tb.Order)-1).Draw(g.rt, label+".near")]
				b = []byte(r)
				i := rapid.IntRange(0, len(b)-1).Draw(g.rt, label+".pos")
				b[i] ^= byte(1 << uint(rapid.IntRange(0, 7).Draw(g.rt, label+".bit")))
			case 2:
				b = []byte{}
			case 5: // number syntax around a registered key: sign, blank, exponent ... (keys parsed as numbers)
				r := tb.Order[rapid.IntRange(0, len(tb.Order)-1).Draw(g.rt, label+".num")]
				b = []byte(r)
				b[rapid.IntRange(0, len(b)-1).Draw(g.rt, label+".npos")] = rapid.SampledFrom([]byte{'+', '-', ' ', '.', 'e', 'x', '_', '\t'}).Draw(g.rt, label+".nch")
			case 3:
				r := tb.Order[rapid.IntRange(0, len(tb.Order)-1).Draw(g.rt, label+".pre")]
				b = []byte(r[:rapid.IntRange(0, len(r)-1).Draw(g.rt, label+".cut")])
			default:
				b = rapid.SliceOfN(rapid.Byte(), 0, df.Width).Draw(g.rt, label+".raw")
			}
			b = stripPadSide(b, byte(df.Pad), df.Left)
			if len(b) > df.Width {
				b = b[:df.Width]
			}
			k = string(b)
		} else {
			mask := NMask(df.NType)
			var n uint64
			switch rapid.IntRange(0, 3).Draw(g.rt, label+".uk") {
			case 0:
				r, _ := strconv.ParseUint(tb.Order[rapid.IntRange(0, len(tb.Order)-1).Draw(g.rt, label+".near")], 10, 64)
				n = r + uint64(rapid.SampledFrom([]int{1, -1, 2, 256, 65536}).Draw(g.rt, label+".d"))
			case 1:
				r, _ := strconv.ParseUint(tb.Order[rapid.IntRange(0, len(tb.Order)-1).Draw(g.rt, label+".swap")], 10, 64)
				s := NSize(df.NType)
				for i := 0; i < s; i++ {
					n |= ((r >> (8 * uint(i))) & 0xff) << (8 * uint(s-1-i))
				}
			case 2:
				n = rapid.SampledFrom([]uint64{0, mask, mask - 1, 0x80000000}).Draw(g.rt, label+".edge")
			default:
				n = rapid.Uint64().Draw(g.rt, label+".rnd")
			}
			k = strconv.FormatUint(n&mask, 10)
		}
		if _, reg := tb.Entries[k]; !reg {
			return k
		}
		if try > 50 {
			return "\x01\x02" // never registered
		}
	}
}

func setKey(v *Value, ts *TypeSchema, di int, key string) {
	df := ts.Fields[di]
	if df.Kind == "num" {
		n, _ := strconv.ParseUint(key, 10, 64)
		v.F[di].N = n
	} else {
		v.F[di].T = HexBytes(key)
	}
}

func (g *gen) value(typeName string, label string, depth int) *Value {
	ts := Types[typeName]
	v := &Value{Type: typeName, F: make([]FV, len(ts.Fields))}
	g.feat.Fields += len(ts.Fields)
	discIdx, dynIdx := -1, ts.DynIndex()
	if dynIdx >= 0 {
		discIdx = ts.FieldIndex(ts.Fields[dynIdx].Disc)
	}
	for i := range ts.Fields {
		f := &ts.Fields[i]
		l := label + "." + f.Go
		x := &v.F[i]
		if i == discIdx {
			continue // set together with the dynamic part
		}
		switch f.Kind {
		case "num":
			if len(g.seenNums) > 0 && rapid.IntRange(0, 11).Draw(g.rt, l+".rep") == 11 {
				x.N = g.seenNums[rapid.IntRange(0, len(g.seenNums)-1).Draw(g.rt, l+".repi")] & NMask(f.NType)
				g.noteNum(f.NType, x.N)
			} else {
				x.N = g.num(l, f.NType)
			}
			if len(g.seenNums) < 64 {
				g.seenNums = append(g.seenNums, x.N)
			}
		case "len", "checksum":
			// stale caller-supplied value
			if rapid.Bool().Draw(g.rt, l+".zero") {
				x.N = 0
			} else {
				x.N = rapid.Uint64().Draw(g.rt, l) & NMask(f.NType)
			}
		case "fixtext":
			x.T = g.fixtext(l, f)
		case "text":
			if len(g.seenTexts) > 0 && rapid.IntRange(0, 11).Draw(g.rt, l+".rep") == 11 {
				x.T = append(HexBytes{}, g.seenTexts[rapid.IntRange(0, len(g.seenTexts)-1).Draw(g.rt, l+".repi")]...)
				g.feat.TextOrList++
			} else {
				x.T = g.text(l, f.Prefix)
			}
			if len(g.seenTexts) < 64 && len(x.T) > 0 && len(x.T) < 64 {
				g.seenTexts = append(g.seenTexts, x.T)
			}
		case "numlist":
			if g.nilList(l) {
				x.Nil = true
				break
			}
			n := g.length(l, NMask(f.Count))
			g.noteList(n, NMask(f.Count))
			x.NL = make([]uint64, n)
			if n > 16 {
				salt := rapid.Uint64().Draw(g.rt, l+".salt")
				switch rapid.IntRange(0, 3).Draw(g.rt, l+".fill") {
				case 0, 3: // every element the same boundary value (long runs of 0xff / 0x00 / 0x80 bytes on the wire)
					cv := rapid.SampledFrom([]uint64{0xffffffffffffffff, 0xffffffffffffffff, 0, 0x8080808080808080, 0x7f7f7f7f7f7f7f7f, 0x0101010101010101}).Draw(g.rt, l+".const") & NMask(f.NType)
					for j := range x.NL {
						x.NL[j] = cv
					}
				case 1: // ascending
					for j := range x.NL {
						x.NL[j] = (salt + uint64(j)) & NMask(f.NType)
					}
				default:
					for j := range x.NL {
						x.NL[j] = splitmix(salt+uint64(j)) & NMask(f.NType)
					}
				}
				g.noteNum(f.NType, x.NL[0])
			} else {
				for j := range x.NL {
					x.NL[j] = g.num(l, f.NType)
				}
			}
		case "fixtextlist", "textlist":
			if g.nilList(l) {
				x.Nil = true
				break
			}
			n := g.length(l, NMask(f.Count))
			g.noteList(n, NMask(f.Count))
			x.TL = make([]HexBytes, n)
			mk := func() HexBytes {
				if f.Kind == "fixtextlist" {
					return g.fixtext(l, f)
				}
				t := genBytesBiased(g.rt, l, rapid.IntRange(0, 12).Draw(g.rt, l+".elen"), ' ')
				if t == nil {
					t = []byte{}
				}
				return t
			}
			if n > 8 {
				pool := make([]HexBytes, rapid.IntRange(1, 6).Draw(g.rt, l+".pool"))
				for j := range pool {
					pool[j] = mk()
				}
				salt := rapid.Uint64().Draw(g.rt, l+".salt")
				for j := range x.TL {
					x.TL[j] = pool[splitmix(salt+uint64(j))%uint64(len(pool))]
				}
			} else {
				for j := range x.TL {
					x.TL[j] = mk()
				}
			}
		case "objlist":
			if g.nilList(l) {
				x.Nil = true
				break
			}
			g.hugeCap = 131073
			n := g.length(l, NMask(f.Count))
			g.hugeCap = 0
			if g.o.HugeObj > 0 && g.mult <= 1 && depth <= 1 && NMask(f.Count) >= 1<<31 && rapid.IntRange(0, g.o.HugeObj-1).Draw(g.rt, l+".hugeobj") == g.o.HugeObj-1 {
				n = rapid.SampledFrom([]int{1<<22 - 1, 1 << 22, 1<<22 + 3, 1500000, 3 << 19}).Draw(g.rt, l+".hugeobjlen")
			}
			g.noteList(n, NMask(f.Count))
			x.OL = make([]*Value, n)
			elem := ts.Module + "." + f.Elem
			saved := g.mult
			g.mult = max(1, g.mult) * max(1, n)
			if n > 4 {
				pool := make([]*Value, rapid.IntRange(1, 4).Draw(g.rt, l+".pool"))
				for j := range pool {
					pool[j] = g.value(elem, l, depth+1)
				}
				salt := rapid.Uint64().Draw(g.rt, l+".salt")
				for j := range x.OL {
					x.OL[j] = pool[splitmix(salt+uint64(j))%uint64(len(pool))]
				}
			} else {
				for j := range x.OL {
					x.OL[j] = g.value(elem, l, depth+1)
				}
			}
			g.mult = saved
		case "obj":
			if g.o.Mode == Arbitrary && !g.o.NoAbsent && rapid.IntRange(0, 5).Draw(g.rt, l+".absent") == 0 {
				g.feat.Absent++
				break
			}
			x.O = g.value(ts.Module+"."+f.Elem, l, depth+1)
		case "objval":
			x.O = g.value(ts.Module+"."+f.Elem, l, depth+1)
		case "dyn":
			tb := TableOf(ts, f)
			df := &ts.Fields[discIdx]
			choice := 0 // present and matching
			if g.o.Mode == Arbitrary && !g.o.NoAbsent && !(depth == 0 && g.o.ForceKey != "") {
				choice = rapid.SampledFrom([]int{0, 0, 0, 0, 0, 0, 0, 0, 0, 0, 0, 0, 1, 1, 1, 1, 2, 2, 3, 3, 4, 4, 5}).Draw(g.rt, l+".shape")
				if choice == 4 && tb.KeyType != "text" {
					choice = 2
				}
				if choice == 5 && depth > 0 {
					choice = 0
				}
			}
			pick := func(lbl string) string {
				return tb.Order[rapid.IntRange(0, len(tb.Order)-1).Draw(g.rt, l+lbl)]
			}
			switch choice {
			case 0:
				key := ""
				if depth == 0 && g.o.ForceKey != "" {
					key = g.o.ForceKey
				} else {
					key = pick(".key")
				}
				setKey(v, ts, discIdx, key)
				x.O = g.value(tb.TypeFor(key), l, depth+1)
				g.feat.Dyn++
			case 1: // absent, registered key
				setKey(v, ts, discIdx, pick(".key"))
				g.feat.Absent++
			case 2: // absent, unregistered key
				setKey(v, ts, discIdx, g.unregisteredKey(l, tb, df))
				g.feat.Absent++
				g.feat.Unregistered++
			case 4: // absent, a registered text key with decoration (blank/tab/NUL before or after, extra byte): not a registered value
				k := pick(".key")
				switch rapid.IntRange(0, 6).Draw(g.rt, l+".deco") {
				case 0:
					k = " " + k
				case 1:
					k = k + " "
				case 2:
					k = "\t" + k
				case 3:
					k = k + "\x00"
				case 4:
					k = " " + k + " "
				case 5:
					k = k + "0"
				default:
					k = "\n" + k
				}
				setKey(v, ts, discIdx, k)
				g.feat.Absent++
				g.feat.Unregistered++
			case 5: // present: a whole frame (of this or another protocol) used as the part - an envelope around a frame
				setKey(v, ts, discIdx, pick(".key"))
				x.O = g.value(frameOf(rapid.SampledFrom(ModuleIDs).Draw(g.rt, l+".envelope")), l, depth+1)
				g.feat.Dyn++
				g.feat.Mismatch++
			case 3: // present, but of the type pinned for another key
				key, other := pick(".key"), pick(".other")
				setKey(v, ts, discIdx, key)
				x.O = g.value(tb.TypeFor(other), l, depth+1)
				g.feat.Dyn++
				if tb.TypeFor(other) != tb.TypeFor(key) {
					g.feat.Mismatch++
				}
			}
			if df.Kind == "fixtext" {
				g.feat.TextOrList++
			}
		}
	}
	g.lengthCoincidence(v, ts, label, discIdx)
	return v
}

// lengthCoincidence: now and then one plain number of the message is set to the length (in bytes or
// elements) of one of its texts/lists, plus a small offset - fields such as "...Len", "No..." often mirror a
// length, and code that treats them specially is otherwise never exercised.
func (g *gen) lengthCoincidence(v *Value, ts *TypeSchema, label string, discIdx int) {
	var nums []int
	var lens []int
	for i, f := range ts.Fields {
		switch f.Kind {
		case "num":
			if i != discIdx && NSize(f.NType) >= 2 {
				nums = append(nums, i)
			}
		case "text":
			lens = append(lens, len(v.F[i].T), len(v.F[i].T)+NSize(f.Prefix))
		case "numlist":
			lens = append(lens, len(v.F[i].NL), len(v.F[i].NL)*NSize(f.NType))
		case "fixtextlist", "textlist":
			lens = append(lens, len(v.F[i].TL))
		case "objlist":
			lens = append(lens, len(v.F[i].OL))
		}
	}
	if len(nums) == 0 || len(lens) == 0 || rapid.IntRange(0, 7).Draw(g.rt, label+".lenco") != 7 {
		return
	}
	ni := nums[rapid.IntRange(0, len(nums)-1).Draw(g.rt, label+".lenco.n")]
	l := lens[rapid.IntRange(0, len(lens)-1).Draw(g.rt, label+".lenco.l")]
	d := rapid.SampledFrom([]int{0, 0, 1, -1, 2, 4, 8, -4, 12, 16}).Draw(g.rt, label+".lenco.d")
	if l+d >= 0 {
		v.F[ni].N = uint64(l+d) & NMask(ts.Fields[ni].NType)
	}
}

// GenValue draws a value of the type in the given mode.
func GenValue(rt *rapid.T, typeName string, o GenOpts) (*Value, *Features) {
	if o.MaxList == 0 {
		o.MaxList = 65535
	}
	g := &gen{rt: rt, o: o, feat: &Features{}, mult: 1}
	v := g.value(typeName, "$", 0)
	return v, g.feat
}

// DefaultOpts: list-size policy per tier.
func DefaultOpts(m Mode) GenOpts {
	if FuzzMode() {
		// coverage-guided campaign: many small cases; the engine aborts a worker that is silent for 10 s
		return GenOpts{Mode: m, MaxList: 70000, BigProb: 60, HugeProb: 0}
	}
	if Thorough() {
		return GenOpts{Mode: m, MaxList: 70000, BigProb: 20, HugeProb: 120, HugeObj: 4000}
	}
	return GenOpts{Mode: m, MaxList: 70000, BigProb: 40, HugeProb: 100}
}

// MyTypes returns the types this shard is responsible for. Types are dealt to the
// shards by estimated generation cost (list-bearing and frame types are far more
// expensive than flat ones), greedily and deterministically, so that shards finish together.
func MyTypes() []string {
	n := EnvNShards()
	type tw struct {
		name string
		w    int
	}
	var all []tw
	for _, name := range TypeNames {
		all = append(all, tw{name, typeWeight(name, 0)})
	}
	sort.SliceStable(all, func(i, j int) bool {
		if all[i].w != all[j].w {
			return all[i].w > all[j].w
		}
		return all[i].name < all[j].name
	})
	load := make([]int, n)
	var mine []string
	for _, t := range all {
		best := 0
		for i := 1; i < n; i++ {
			if load[i] < load[best] {
				best = i
			}
		}
		load[best] += t.w
		if best == EnvShard() {
			mine = append(mine, t.name)
		}
	}
	sort.Strings(mine)
	return mine
}

func typeWeight(name string, depth int) int {
	ts := Types[name]
	w := 2 + len(ts.Fields)
	if depth > 3 {
		return w
	}
	for _, f := range ts.Fields {
		switch f.Kind {
		case "text":
			w += 40
		case "numlist", "fixtextlist", "textlist":
			w += 120
		case "objlist":
			w += 200 + typeWeight(ts.Module+"."+f.Elem, depth+1)
		case "obj", "objval":
			w += typeWeight(ts.Module+"."+f.Elem, depth+1)
		case "dyn":
			tb := TableOf(ts, &f)
			sum := 0
			for _, k := range tb.Order {
				sum += typeWeight(tb.TypeFor(k), depth+1)
			}
			w += 20 + sum/len(tb.Order)
		}
	}
	return w
}
