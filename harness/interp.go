package harness

// INDEPENDENT interpreter of the pinned schema: Render(value) -> bytes and
// Parse(bytes) -> value. Uses nothing from the library (no import of codec):
// only its own byte-order code, refFixedWrite/refFixedRead and the reference
// checksums. It is the oracle for C02/C03/C04/C05/C08/C12 and supplies the
// expected values everywhere else.

import (
	"errors"
	"fmt"
	"strconv"
)

type Span struct {
	Path string `json:"path"`
	Kind string `json:"kind"` // num text fixtext count prefix len checksum disc
	Off  int    `json:"off"`
	Len  int    `json:"len"`
	Max  uint64 `json:"-"`
}

type RenderOpts struct {
	FlipEndian bool                                  // render with the other byte order (C03 non-triviality)
	FieldHook  func(ts *TypeSchema, i int, f *Field) // perturb a copy of the field record (C02 non-triviality)
	SwapAt     func(ts *TypeSchema) int              // swap fields i and i+1 of this type (-1: none)
	Spans      bool
	NoService  map[string]bool // checksum services that are not registered: the frame then carries the caller's value
}

type Rendered struct {
	Bytes     []byte
	MustError bool   // the pinned behaviour is an error (unregistered key with absent part; prefix overflow)
	MayError  bool   // outside what the schema defines (absent part in a skip frame, nil nested pointer, body/discriminator mismatch)
	Why       string // reason for MustError/MayError
	Spans     []Span
}

type renderer struct {
	out  []byte
	opts *RenderOpts
	res  *Rendered
}

func putUint(out []byte, v uint64, size int, le bool) []byte {
	for i := 0; i < size; i++ {
		var sh uint
		if le {
			sh = uint(8 * i)
		} else {
			sh = uint(8 * (size - 1 - i))
		}
		out = append(out, byte(v>>sh))
	}
	return out
}

func getUint(b []byte, size int, le bool) uint64 {
	var v uint64
	for i := 0; i < size; i++ {
		if le {
			v |= uint64(b[i]) << uint(8*i)
		} else {
			v = v<<8 | uint64(b[i])
		}
	}
	return v
}

func (r *renderer) span(path, kind string, off, n int, max uint64) {
	if r.opts != nil && r.opts.Spans {
		r.res.Spans = append(r.res.Spans, Span{Path: path, Kind: kind, Off: off, Len: n, Max: max})
	}
}

func (r *renderer) must(why string) {
	if !r.res.MustError {
		r.res.MustError, r.res.Why = true, why
	}
}
func (r *renderer) may(why string) {
	if !r.res.MayError {
		r.res.MayError = true
		if r.res.Why == "" {
			r.res.Why = why
		}
	}
}

func (r *renderer) prefix(path, kind, ptype string, n int, le bool) {
	if uint64(n) > NMask(ptype) {
		r.must(fmt.Sprintf("%s: length %d does not fit %s", path, n, ptype))
	}
	off := len(r.out)
	r.out = putUint(r.out, uint64(n)&NMask(ptype), NSize(ptype), le)
	r.span(path, kind, off, NSize(ptype), NMask(ptype))
}

// KeyOf returns the table key carried by the discriminator field of v for dyn field f.
func KeyOf(v *Value, ts *TypeSchema, f *Field, decoded bool) string {
	di := ts.FieldIndex(f.Disc)
	df := ts.Fields[di]
	switch df.Kind {
	case "num":
		return strconv.FormatUint(v.F[di].N&NMask(df.NType), 10)
	case "fixtext":
		return string(v.F[di].T)
	}
	panic("discriminator of kind " + df.Kind)
}

func (r *renderer) value(v *Value, path string) {
	ts := Types[v.Type]
	if ts == nil {
		panic("render: unknown type " + v.Type)
	}
	le := ts.LE
	if r.opts != nil && r.opts.FlipEndian {
		le = !le
	}
	start := len(r.out)
	order := make([]int, len(ts.Fields))
	for i := range order {
		order[i] = i
	}
	if r.opts != nil && r.opts.SwapAt != nil {
		if k := r.opts.SwapAt(ts); k >= 0 && k+1 < len(order) {
			order[k], order[k+1] = order[k+1], order[k]
		}
	}
	lenAt, lenSize, lenIdx := -1, 0, -1
	discIdx := -1
	if di := ts.DynIndex(); di >= 0 {
		discIdx = ts.FieldIndex(ts.Fields[di].Disc)
	}
	for _, i := range order {
		f := ts.Fields[i]
		if r.opts != nil && r.opts.FieldHook != nil {
			r.opts.FieldHook(ts, i, &f)
		}
		x := &v.F[i]
		p := path + "." + f.Go
		off := len(r.out)
		switch f.Kind {
		case "num":
			r.out = putUint(r.out, x.N&NMask(f.NType), NSize(f.NType), le)
			r.span(p, "num", off, NSize(f.NType), NMask(f.NType))
			if i == discIdx {
				r.span(p, "disc", off, NSize(f.NType), NMask(f.NType))
			}
		case "fixtext":
			r.out = append(r.out, refFixedWrite(x.T, f.Width, byte(f.Pad), f.Left)...)
			r.span(p, "fixtext", off, f.Width, 0)
			if i == discIdx {
				r.span(p, "disc", off, f.Width, uint64(f.Pad))
			}
		case "text":
			r.prefix(p, "prefix", f.Prefix, len(x.T), le)
			o2 := len(r.out)
			r.out = append(r.out, x.T...)
			r.span(p, "text", o2, len(x.T), 0)
		case "numlist":
			r.prefix(p, "count", f.Count, len(x.NL), le)
			o2 := len(r.out)
			for _, n := range x.NL {
				r.out = putUint(r.out, n&NMask(f.NType), NSize(f.NType), le)
			}
			r.span(p, "elems", o2, len(r.out)-o2, 0)
		case "fixtextlist":
			r.prefix(p, "count", f.Count, len(x.TL), le)
			o2 := len(r.out)
			for _, t := range x.TL {
				r.out = append(r.out, refFixedWrite(t, f.Width, byte(f.Pad), f.Left)...)
			}
			r.span(p, "elems", o2, len(r.out)-o2, 0)
		case "textlist":
			r.prefix(p, "count", f.Count, len(x.TL), le)
			for j, t := range x.TL {
				r.prefix(p+"["+strconv.Itoa(j)+"]", "prefix", f.Prefix, len(t), le)
				r.out = append(r.out, t...)
			}
			r.span(p, "elems", off, len(r.out)-off, 0)
		case "objlist":
			r.prefix(p, "count", f.Count, len(x.OL), le)
			o2 := len(r.out)
			for j, o := range x.OL {
				r.value(o, p+"["+strconv.Itoa(j)+"]")
			}
			r.span(p, "elems", o2, len(r.out)-o2, 0)
		case "obj":
			if x.O == nil {
				r.may(p + ": nested part absent")
				r.value(Zero(ts.Module+"."+f.Elem), p)
			} else {
				r.value(x.O, p)
			}
		case "objval":
			r.value(x.O, p)
		case "dyn":
			tb := TableOf(ts, &f)
			key := KeyOf(v, ts, &f, false)
			want := tb.TypeFor(key)
			switch {
			case x.O != nil:
				if want != x.O.Type {
					r.may(fmt.Sprintf("%s: part of type %s under key %q (pinned: %q)", p, x.O.Type, key, want))
				}
				r.value(x.O, p)
			case f.NilEnc == "skip":
				r.may(p + ": absent part in a frame that skips it")
			default: // materialise
				if want == "" {
					r.must(fmt.Sprintf("%s: absent part and unregistered key %q", p, key))
				} else {
					r.value(Zero(want), p)
				}
			}
			if lenIdx >= 0 && lenAt >= 0 {
				n := uint64(len(r.out) - off)
				tmp := putUint(nil, n&NMask(ts.Fields[lenIdx].NType), lenSize, le)
				copy(r.out[lenAt:], tmp)
				lenAt = -1
			}
			r.span(p, "body", off, len(r.out)-off, 0)
		case "len":
			lenAt, lenSize, lenIdx = len(r.out), NSize(f.NType), i
			r.out = putUint(r.out, 0, lenSize, le)
			r.span(p, "len", off, lenSize, NMask(f.NType))
		case "checksum":
			c := refChecksum(f.Algo, r.out[start:])
			if r.opts != nil && r.opts.NoService[f.Algo] {
				c = x.N // pinned behaviour without the service: the caller's value goes out unchanged
			}
			r.out = putUint(r.out, c&NMask(f.NType), NSize(f.NType), le)
			r.span(p, "checksum", off, NSize(f.NType), NMask(f.NType))
		default:
			panic("render: kind " + f.Kind)
		}
	}
}

// Render renders v as the pinned schema lays it out.
func Render(v *Value, opts *RenderOpts) *Rendered {
	res := &Rendered{}
	r := &renderer{opts: opts, res: res}
	r.value(v, "$")
	res.Bytes = r.out
	return res
}

// Computed returns a copy of v in which every self-computed length/checksum
// field (at any depth) holds the value the interpreter computes.
func Computed(v *Value) *Value {
	c := v.Clone()
	fixComputed(c)
	return c
}

func fixComputed(v *Value) {
	ts := Types[v.Type]
	for i, f := range ts.Fields {
		x := &v.F[i]
		for _, o := range x.OL {
			fixComputed(o)
		}
		if x.O != nil {
			fixComputed(x.O)
		}
		_ = f
	}
	hasComputed := false
	for _, f := range ts.Fields {
		if f.Kind == "len" || f.Kind == "checksum" {
			hasComputed = true
		}
	}
	if !hasComputed {
		return
	}
	r := Render(v, &RenderOpts{Spans: true})
	for _, sp := range r.Spans {
		if sp.Kind != "len" && sp.Kind != "checksum" {
			continue
		}
		// only this type's own fields: path "$.<Field>"
		for i, f := range ts.Fields {
			if "$."+f.Go == sp.Path {
				v.F[i].N = getUint(r.Bytes[sp.Off:sp.Off+sp.Len], sp.Len, ts.LE)
			}
		}
	}
}

var (
	ErrShort      = errors.New("interp: input too short")
	ErrUnknownKey = errors.New("interp: unregistered discriminator")
)

type parser struct {
	b    []byte
	pos  int
	opts *RenderOpts
}

func (p *parser) take(n int) ([]byte, error) {
	if n < 0 || p.pos+n > len(p.b) {
		return nil, ErrShort
	}
	s := p.b[p.pos : p.pos+n]
	p.pos += n
	return s, nil
}

func (p *parser) uint(ntype string, le bool) (uint64, error) {
	s, err := p.take(NSize(ntype))
	if err != nil {
		return 0, err
	}
	return getUint(s, NSize(ntype), le), nil
}

func (p *parser) value(typeName string) (*Value, error) {
	ts := Types[typeName]
	le := ts.LE
	if p.opts != nil && p.opts.FlipEndian {
		le = !le
	}
	v := &Value{Type: typeName, F: make([]FV, len(ts.Fields))}
	order := make([]int, len(ts.Fields))
	for i := range order {
		order[i] = i
	}
	if p.opts != nil && p.opts.SwapAt != nil {
		if k := p.opts.SwapAt(ts); k >= 0 && k+1 < len(order) {
			order[k], order[k+1] = order[k+1], order[k]
		}
	}
	for _, i := range order {
		f := ts.Fields[i]
		if p.opts != nil && p.opts.FieldHook != nil {
			p.opts.FieldHook(ts, i, &f)
		}
		x := &v.F[i]
		switch f.Kind {
		case "num", "len", "checksum":
			n, err := p.uint(f.NType, le)
			if err != nil {
				return nil, err
			}
			x.N = n
		case "fixtext":
			s, err := p.take(f.Width)
			if err != nil {
				return nil, err
			}
			x.T = refFixedRead(s, byte(f.Pad), f.Left)
		case "text":
			n, err := p.uint(f.Prefix, le)
			if err != nil {
				return nil, err
			}
			if n > uint64(len(p.b)) {
				return nil, ErrShort
			}
			s, err := p.take(int(n))
			if err != nil {
				return nil, err
			}
			x.T = append(HexBytes{}, s...)
		case "numlist":
			n, err := p.uint(f.Count, le)
			if err != nil {
				return nil, err
			}
			if n*uint64(NSize(f.NType)) > uint64(len(p.b)-p.pos) {
				return nil, ErrShort
			}
			x.NL = make([]uint64, n)
			for j := range x.NL {
				x.NL[j], _ = p.uint(f.NType, le)
			}
		case "fixtextlist":
			n, err := p.uint(f.Count, le)
			if err != nil {
				return nil, err
			}
			if f.Width > 0 && n*uint64(f.Width) > uint64(len(p.b)-p.pos) {
				return nil, ErrShort
			}
			x.TL = make([]HexBytes, n)
			for j := range x.TL {
				s, _ := p.take(f.Width)
				x.TL[j] = refFixedRead(s, byte(f.Pad), f.Left)
			}
		case "textlist":
			n, err := p.uint(f.Count, le)
			if err != nil {
				return nil, err
			}
			if n*uint64(NSize(f.Prefix)) > uint64(len(p.b)-p.pos) {
				return nil, ErrShort
			}
			x.TL = make([]HexBytes, n)
			for j := range x.TL {
				l, err := p.uint(f.Prefix, le)
				if err != nil {
					return nil, err
				}
				if l > uint64(len(p.b)) {
					return nil, ErrShort
				}
				s, err := p.take(int(l))
				if err != nil {
					return nil, err
				}
				x.TL[j] = append(HexBytes{}, s...)
			}
		case "objlist":
			n, err := p.uint(f.Count, le)
			if err != nil {
				return nil, err
			}
			elem := ts.Module + "." + f.Elem
			if ms := minSize(elem); ms > 0 && n*uint64(ms) > uint64(len(p.b)-p.pos) {
				return nil, ErrShort
			}
			x.OL = make([]*Value, 0, min(int(n), 1<<16))
			for j := uint64(0); j < n; j++ {
				o, err := p.value(elem)
				if err != nil {
					return nil, err
				}
				x.OL = append(x.OL, o)
			}
		case "obj", "objval":
			o, err := p.value(ts.Module + "." + f.Elem)
			if err != nil {
				return nil, err
			}
			x.O = o
		case "dyn":
			tb := TableOf(ts, &f)
			want := tb.TypeFor(KeyOf(v, ts, &f, true))
			if want == "" {
				return nil, ErrUnknownKey
			}
			o, err := p.value(want)
			if err != nil {
				return nil, err
			}
			x.O = o
		}
	}
	return v, nil
}

var minSizeCache = map[string]int{}

// minSize: least number of bytes any encoding of the type occupies.
func minSize(typeName string) int {
	if s, ok := minSizeCache[typeName]; ok {
		return s
	}
	ts := Types[typeName]
	s := 0
	for _, f := range ts.Fields {
		switch f.Kind {
		case "num", "len", "checksum":
			s += NSize(f.NType)
		case "fixtext":
			s += f.Width
		case "text":
			s += NSize(f.Prefix)
		case "numlist", "fixtextlist", "textlist", "objlist":
			s += NSize(f.Count)
		case "obj", "objval":
			s += minSize(ts.Module + "." + f.Elem)
		}
	}
	minSizeCache[typeName] = s
	return s
}

// Parse reads one message of the given type from the front of b as the pinned
// schema defines it and returns the value a decoder must produce and the number
// of bytes the message occupies.
func Parse(typeName string, b []byte) (*Value, int, error) { return ParseWith(typeName, b, nil) }

// ParseWith parses under a perturbed schema (used only to measure whether a case
// distinguishes plausible layout changes).
func ParseWith(typeName string, b []byte, opts *RenderOpts) (*Value, int, error) {
	p := &parser{b: b, opts: opts}
	v, err := p.value(typeName)
	if err != nil {
		return nil, p.pos, err
	}
	return v, p.pos, nil
}
