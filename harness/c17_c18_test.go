package harness

// C17 — encoding any constructible message returns bytes or an error, never panics.
// C18 — values too long for their length prefix are refused, never silently wrapped.

import (
	"bytes"
	"fmt"
	"sort"
	"testing"

	"pgregory.net/rapid"
)

type CaseC17 struct {
	Type string  `json:"type"`
	How  string  `json:"how"` // zero | ctor | value
	V    *Value  `json:"v,omitempty"`
	Pre  []PreOp `json:"pre,omitempty"` // prior calls in the same process (may unregister a checksum service)
}

func oracleC17(c *CaseC17) *Failure {
	defer runPrelude(c.Pre)()
	var obj any
	switch c.How {
	case "zero":
		obj = regByName[c.Type].New()
	case "ctor":
		if regByName[c.Type].Ctor == nil {
			return nil
		}
		obj = regByName[c.Type].Ctor()
	default:
		obj = ToStruct(c.V)
	}
	var buf bytes.Buffer
	buf.WriteString("prior")
	_, pan, stack := safely(func() error { return EncodeAny(obj, &buf) })
	if pan != nil {
		return failf("C17/"+c.Type+"/panic", "Encode of a %s value panicked: %v\n%s", c.How, pan, stack)
	}
	return nil
}

func TestC17(t *testing.T) {
	Col.Property = "C17"
	ReplayRegress(t, "C17")
	t.Run("zero-and-ctor", func(t *testing.T) {
		for _, tn := range MyTypes() {
			for _, how := range []string{"zero", "ctor"} {
				c := &CaseC17{Type: tn, How: how}
				Col.Case(Hash64([]byte(tn), []byte(how)), true, "how:"+how)
				Col.Program(tn)
				Direct(t, "C17", "c17", "zero-and-ctor/"+tn+"/"+how, c, oracleC17)
			}
		}
		// the five frames (the only callers of the checksum registry) with each service unregistered
		for _, tn := range MyTypes() {
			if !Types[tn].IsFrame() {
				continue
			}
			for _, algo := range c14Algos {
				for _, how := range []string{"zero", "ctor"} {
					c := &CaseC17{Type: tn, How: how, Pre: []PreOp{{Kind: "unreg", Algo: algo}}}
					Col.Case(Hash64([]byte(tn), []byte(how), []byte(algo)), true, "how:"+how, "a-checksum-service-unregistered")
					Direct(t, "C17", "c17", "unreg/"+tn+"/"+how+"/"+algo, c, oracleC17)
				}
			}
		}
		Col.MarkExhaustive("zero value and constructor result of all 170 types")
	})
	// a message whose body/extension the caller left out, under every discriminator value that means something
	// anywhere in the library: every key of every table of the same key kind, and every 3-digit application id
	t.Run("absent-part-every-key", func(t *testing.T) {
		seed := int(EnvSeed() % 1000003)
		for ti, tb := range TableList {
			if !MyShare(ti) {
				continue
			}
			holder := holderOf(tb)
			numeric := Types[holder].Fields[Types[holder].FieldIndex(Types[holder].Fields[Types[holder].DynIndex()].Disc)].Kind == "num"
			keys := map[string]bool{}
			for _, other := range TableList {
				on := Types[holderOf(other)].Fields[Types[holderOf(other)].FieldIndex(Types[holderOf(other)].Fields[Types[holderOf(other)].DynIndex()].Disc)].Kind == "num"
				if on != numeric {
					continue
				}
				for _, k := range other.Order {
					keys[k] = true
				}
			}
			if !numeric {
				for n := 0; n < 1000; n++ {
					keys[fmt.Sprintf("%03d", n)] = true
				}
			}
			ks := make([]string, 0, len(keys))
			for k := range keys {
				ks = append(ks, k)
			}
			sort.Strings(ks)
			for i, k := range ks {
				c := &CaseC17{Type: holder, How: "value", V: holderWithKey(seed+i, tb, k, false, "")}
				reg := "unregistered-here"
				if tb.TypeFor(k) != "" {
					reg = "registered"
				}
				Col.Case(Hash64([]byte(tb.QName), []byte(k), []byte("absent")), true, "absent-part-enumerated-key", "key:"+reg)
				if !Direct(t, "C17", "c17", "absent/"+tb.QName+"/"+k, c, oracleC17) {
					break
				}
			}
		}
		Col.MarkExhaustive("every message with a discriminated part, the part left out, under every key registered in any table of the same key kind and every 3-digit application id")
	})
	if Thorough() {
		// giants: the frames that can exceed 16 MiB (32-bit list counts) with 1.5 million and 2^22+3 entries
		t.Run("giant-frames", func(t *testing.T) {
			i := 0
			for _, g := range giantFrames() {
				i++
				if !MyShare(i) {
					continue
				}
				c := &CaseC17{Type: g.Type, How: "value", V: g}
				Col.Case(Hash64([]byte(g.Type), []byte(fmt.Sprint(i))), true, "giant-frame(>16MiB)")
				Direct(t, "C17", "c17", fmt.Sprintf("giant/%d", i), c, oracleC17)
			}
		})
	}
	RunProps(t, rpC17(MyTypes()))
	t.Run("buffer-geometry", runC17Geo)
}

func rpC17(types []string) (out []RProp) {
	for _, tn := range types {
		tn := tn
		out = append(out, MkProp("C17", "c17", tn, func(rt *rapid.T) *CaseC17 {
			pre, _ := genPrelude(rt, tn, true)
			v, ft := GenValue(rt, tn, DefaultOpts(Arbitrary))
			c := &CaseC17{Type: tn, How: "value", V: v, Pre: pre}
			nt := ft.Absent > 0 || ft.NilLists > 0
			cls := append(ft.Classes(), "how:value")
			if len(pre) > 0 {
				cls = append(cls, "after-prior-calls")
			}
			for _, op := range pre {
				if op.Kind == "unreg" {
					cls = append(cls, "a-checksum-service-unregistered")
					nt = true
				}
			}
			Col.Case(Hash64(JSONOf(c)), nt, cls...)
			Col.Program(tn)
			if nt && Col.WantSample("value") && len(JSONOf(c)) < 1500 {
				Col.Sample("value", c)
			}
			return c
		}, oracleC17))
	}
	return
}

// ---------------------------------------------------------------- C18

type CaseC18Prim struct {
	Prim   string `json:"prim"` // str numlist fixlist strlist strlist-inner objlist
	Prefix string `json:"prefix"`
	LE     bool   `json:"le"`
	N      int    `json:"n"`              // number of elements / bytes
	Lead   int    `json:"lead,omitempty"` // strlist-inner: this many maximum-length elements precede the tested one (megabytes of valid list data first)
}

func oracleC18Prim(c *CaseC18Prim) *Failure {
	max := NMask(c.Prefix)
	name := map[string]string{"str": "WriteString", "numlist": "WriteBasicTypeList", "fixlist": "WriteFixedStringListWithPadding", "strlist": "WriteStringList", "strlist-inner": "WriteStringList(element length)", "objlist": "WriteObjectList"}[c.Prim]
	if c.LE {
		name += "LE"
	}
	sig := fmt.Sprintf("C18/%s[%s]", name, c.Prefix)
	pc := &CasePrim{Prefix: c.Prefix}
	switch c.Prim {
	case "str":
		pc.Prim = "str"
		pc.Strs = []HexBytes{bytes.Repeat([]byte{'x'}, c.N)}
	case "numlist":
		pc.Prim, pc.Elem = "numlist", "uint8"
		pc.Nums = make([]uint64, c.N)
		for i := range pc.Nums {
			pc.Nums[i] = uint64(i)
		}
	case "fixlist":
		pc.Prim, pc.N, pc.Pad = "fixlist", 1, ' '
		pc.Strs = make([]HexBytes, c.N)
		for i := range pc.Strs {
			pc.Strs[i] = HexBytes{'a' + byte(i%26)}
		}
	case "strlist":
		pc.Prim, pc.Inner = "strlist", "uint8"
		pc.Strs = make([]HexBytes, c.N)
		for i := range pc.Strs {
			pc.Strs[i] = HexBytes{}
		}
	case "strlist-inner":
		pc.Prim, pc.Inner, pc.Prefix = "strlist", c.Prefix, "uint32"
		pc.Strs = []HexBytes{HexBytes("ok")}
		if c.Lead > 0 {
			full := bytes.Repeat([]byte{'z'}, int(max))
			for i := 0; i < c.Lead; i++ {
				pc.Strs = append(pc.Strs, full)
			}
		}
		pc.Strs = append(pc.Strs, bytes.Repeat([]byte{'y'}, c.N))
	case "objlist":
		pc.Prim = "objlist"
		pc.Strs = make([]HexBytes, c.N)
		for i := range pc.Strs {
			pc.Strs[i] = HexBytes{}
		}
	}
	// twice: into a fresh buffer, and into one that already has room for everything (recycled after a large
	// message, or pre-grown by the caller) - a writer may take another path when no growth is needed
	for _, roomy := range []bool{false, true} {
		var buf bytes.Buffer
		where := ""
		if roomy {
			buf.Grow(min(64<<20, c.N*8+1<<16))
			where = " (buffer with spare capacity for all of it)"
		}
		err, pan, _ := safely(func() error { return libPrimWrite(pc, c.LE, &buf) })
		if pan != nil {
			return failf(sig+"/panic", "length %d%s: panicked: %v", c.N, where, pan)
		}
		if uint64(c.N) > max {
			if err == nil {
				pfx := buf.Bytes()[:min(buf.Len(), NSize(c.Prefix)+4)]
				return failf(sig+"/wrapped", "length %d exceeds the %s maximum %d, yet the writer succeeded%s and wrote %d bytes starting %x (a wrapped-around prefix followed by the data)", c.N, c.Prefix, max, where, buf.Len(), pfx)
			}
			continue
		}
		if err != nil {
			return failf(sig+"/refused-valid", "length %d fits %s (max %d) but the writer returned %v%s", c.N, c.Prefix, max, err, where)
		}
		nums, ss, rerr := libPrimRead(pc, c.LE, bytes.NewBuffer(buf.Bytes()))
		if rerr != nil {
			return failf(sig+"/roundtrip", "length %d: written value cannot be read back: %v", c.N, rerr)
		}
		if len(nums)+len(ss) != len(pc.Nums)+len(pc.Strs) {
			return failf(sig+"/roundtrip", "length %d: read back %d elements", c.N, len(nums)+len(ss))
		}
		if c.Prim == "str" && len(ss[0]) != c.N || c.Prim == "strlist-inner" && len(ss[1+c.Lead]) != c.N {
			return failf(sig+"/roundtrip", "length %d: text read back with another length", c.N)
		}
	}
	return nil
}

// CaseC18Elem: an object list one of whose elements refuses to encode (as an
// element holding an over-long field does): the list writer must report it.
type CaseC18Elem struct {
	Prefix string `json:"prefix"`
	LE     bool   `json:"le"`
	N      int    `json:"n"`
	FailAt int    `json:"fail_at"`
}

func oracleC18Elem(c *CaseC18Elem) *Failure {
	bl := make([]*Blob, c.N)
	for i := range bl {
		bl[i] = &Blob{P: []byte{byte(i)}, Refuse: i == c.FailAt}
	}
	var buf bytes.Buffer
	err, pan, _ := safely(func() error { return ObjLists[c.Prefix].write(&buf, c.LE, bl) })
	name := "WriteObjectList"
	if c.LE {
		name += "LE"
	}
	if pan != nil {
		return failf("C18/"+name+"/panic", "panicked: %v", pan)
	}
	if err == nil {
		return failf("C18/"+name+"/element-error-swallowed", "element %d of %d returned an error from Encode (as an element with an over-long field does) but %s[%s] returned nil after writing %d bytes", c.FailAt, c.N, name, c.Prefix, buf.Len())
	}
	return nil
}

// giantFrames: SZSE frames whose body is a repeating group with a 32-bit count, at 1.5 million and 2^22+3 entries
// (18 MB / 50 MB on the wire) - sizes the random generators do not reach.
func giantFrames() []*Value {
	var out []*Value
	fts := Types["szse.SzseBinary"]
	tb := TableOf(fts, &fts.Fields[fts.DynIndex()])
	seen := map[string]bool{}
	for _, key := range tb.Order {
		bt := tb.TypeFor(key)
		if seen[bt] {
			continue
		}
		for fi, f := range Types[bt].Fields {
			if f.Kind != "objlist" || NMask(f.Count) < 1<<31 {
				continue
			}
			seen[bt] = true
			for _, n := range []int{1500000, 1<<22 + 3} {
				fv := Zero("szse.SzseBinary")
				setKey(fv, fts, fts.FieldIndex(fts.Fields[fts.DynIndex()].Disc), key)
				body := Skeleton(bt, 0)
				e := body.F[fi].OL[0]
				body.F[fi].OL = make([]*Value, n)
				for j := range body.F[fi].OL {
					body.F[fi].OL[j] = e
				}
				fv.F[fts.DynIndex()].O = body
				out = append(out, fv)
			}
		}
	}
	return out
}

type PathStep struct {
	Field string `json:"field"`
	Index int    `json:"index,omitempty"` // element index for object lists
}

type CaseC18Msg struct {
	Type  string     `json:"type"`
	Key   int        `json:"key,omitempty"`  // which registered key the top-level dynamic part uses
	Path  []PathStep `json:"path,omitempty"` // steps through nested parts to the value that owns Field
	Field string     `json:"field"`          // the prefixed field that is blown up
	Inner bool       `json:"inner"`          // exceed the per-element length prefix of a text list instead of the count
	N     int        `json:"n"`
	Lead  int        `json:"lead,omitempty"` // Inner: this many maximum-length entries precede the tested one
}

// c18Build: skeleton of the type with the named (possibly nested) field blown up to n elements/bytes.
func c18Build(c *CaseC18Msg) (*Value, uint64, bool) {
	root := Skeleton(c.Type, c.Key)
	v := root
	for _, st := range c.Path {
		ts := Types[v.Type]
		i := ts.FieldIndex(st.Field)
		if i < 0 {
			return nil, 0, false
		}
		x := &v.F[i]
		switch ts.Fields[i].Kind {
		case "objlist":
			if st.Index >= len(x.OL) {
				return nil, 0, false
			}
			// object list elements of the skeleton may be shared: copy before changing
			x.OL[st.Index] = x.OL[st.Index].Clone()
			v = x.OL[st.Index]
		case "obj", "objval", "dyn":
			if x.O == nil {
				return nil, 0, false
			}
			v = x.O
		default:
			return nil, 0, false
		}
	}
	ts := Types[v.Type]
	i := ts.FieldIndex(c.Field)
	if i < 0 {
		return nil, 0, false
	}
	f := ts.Fields[i]
	x := &v.F[i]
	var max uint64
	switch f.Kind {
	case "text":
		max = NMask(f.Prefix)
		x.T = bytes.Repeat([]byte{'x'}, c.N)
	case "numlist":
		max = NMask(f.Count)
		x.NL = make([]uint64, c.N)
		for j := range x.NL {
			x.NL[j] = uint64(j) & NMask(f.NType)
		}
	case "fixtextlist":
		max = NMask(f.Count)
		x.TL = make([]HexBytes, c.N)
		for j := range x.TL {
			x.TL[j] = HexBytes{'a' + byte(j%26)}[:min(1, f.Width)]
		}
	case "textlist":
		if c.Inner {
			max = NMask(f.Prefix)
			x.TL = []HexBytes{HexBytes("ok")}
			for j := 0; j < c.Lead; j++ {
				x.TL = append(x.TL, bytes.Repeat([]byte{'z'}, int(max)))
			}
			x.TL = append(x.TL, bytes.Repeat([]byte{'y'}, c.N))
		} else {
			max = NMask(f.Count)
			x.TL = make([]HexBytes, c.N)
			for j := range x.TL {
				x.TL[j] = HexBytes{}
			}
		}
	case "objlist":
		max = NMask(f.Count)
		e := Skeleton(ts.Module+"."+f.Elem, 0)
		x.OL = make([]*Value, c.N)
		for j := range x.OL {
			x.OL[j] = e
		}
	default:
		return nil, 0, false
	}
	return root, max, true
}

type c18Target struct {
	path  []PathStep
	field string
	ptype string
	inner bool
}

// c18Targets lists every prefixed field reachable from the skeleton of a type,
// through nested parts, object-list elements and the dynamic part.
func c18Targets(v *Value, path []PathStep, out *[]c18Target, depth int) {
	if depth > 6 {
		return
	}
	ts := Types[v.Type]
	for i, f := range ts.Fields {
		here := append([]PathStep{}, path...)
		switch f.Kind {
		case "text":
			*out = append(*out, c18Target{here, f.Go, f.Prefix, false})
		case "numlist", "fixtextlist":
			*out = append(*out, c18Target{here, f.Go, f.Count, false})
		case "textlist":
			*out = append(*out, c18Target{here, f.Go, f.Count, false}, c18Target{here, f.Go, f.Prefix, true})
		case "objlist":
			*out = append(*out, c18Target{here, f.Go, f.Count, false})
			if len(v.F[i].OL) > 0 {
				c18Targets(v.F[i].OL[0], append(here, PathStep{Field: f.Go, Index: 0}), out, depth+1)
			}
		case "obj", "objval", "dyn":
			if v.F[i].O != nil {
				c18Targets(v.F[i].O, append(here, PathStep{Field: f.Go}), out, depth+1)
			}
		}
	}
}

func oracleC18Msg(c *CaseC18Msg) *Failure {
	v, max, ok := c18Build(c)
	if !ok {
		Col.BrokenHarness("C18 case names a field without a prefix: " + c.Type + "." + c.Field)
		return nil
	}
	sig := "C18/" + c.Type + "." + c18PathString(c)
	if uint64(c.N) > max {
		// also into a buffer that already has room for the whole message (recycled / pre-grown)
		var roomy bytes.Buffer
		roomy.Grow(min(64<<20, c.N*64+1<<16))
		rerr, rpan, _ := safely(func() error { return EncodeAny(ToStruct(v), &roomy) })
		if rpan != nil {
			return failf(sig+"/panic", "length %d: Encode into a roomy buffer panicked: %v", c.N, rpan)
		}
		if rerr == nil {
			return failf(sig+"/wrapped", "%d entries/bytes behind a prefix whose maximum is %d: Encode into a buffer with spare capacity succeeded (%d bytes written) instead of returning an error", c.N, max, roomy.Len())
		}
	}
	out, _, err, pan := LibEncode(v)
	if pan != nil {
		return failf(sig+"/panic", "length %d: Encode panicked: %v", c.N, pan)
	}
	if uint64(c.N) > max {
		if err == nil {
			return failf(sig+"/wrapped", "%d entries/bytes behind a prefix whose maximum is %d: Encode succeeded (%d bytes written) instead of returning an error", c.N, max, len(out))
		}
		return nil
	}
	if err != nil {
		return failf(sig+"/refused-valid", "length %d fits the prefix (max %d) but Encode returned %v", c.N, max, err)
	}
	got, rest, derr, dpan := LibDecode(c.Type, out)
	if derr != nil || dpan != nil || len(rest) != 0 {
		return failf(sig+"/roundtrip", "length %d: own encoding not decodable: err=%v panic=%v rest=%d", c.N, derr, dpan, len(rest))
	}
	if d := Diff(got, Computed(v)); d != "" {
		return failf(sig+"/roundtrip", "length %d: %s", c.N, d)
	}
	return nil
}

func c18PathString(c *CaseC18Msg) string {
	s := ""
	for _, st := range c.Path {
		s += st.Field + "."
	}
	return s + c.Field
}

func init() {
	registerReplay("c17", oracleC17)
	registerReplay("c18prim", oracleC18Prim)
	registerReplay("c18msg", oracleC18Msg)
	registerReplay("c18elem", oracleC18Elem)
}

func TestC18(t *testing.T) {
	Col.Property = "C18"
	ReplayRegress(t, "C18")
	t.Run("primitives", func(t *testing.T) {
		i := 0
		for _, prim := range []string{"str", "numlist", "fixlist", "strlist", "strlist-inner", "objlist"} {
			for _, pfx := range []string{"uint8", "uint16", "def-uint8", "def-uint16"} {
				for _, le := range []bool{false, true} {
					max := int(NMask(pfx))
					for _, n := range []int{max - 1, max, max + 1, max + 2, max + 77, 2*max + 2, 3*max + 3} {
						i++
						if !MyShare(i) {
							continue
						}
						c := &CaseC18Prim{Prim: prim, Prefix: pfx, LE: le, N: n}
						cls := "at-or-below-max"
						if n > max {
							cls = "beyond-max"
						}
						Col.Case(Hash64(JSONOf(c)), true, "primitive", cls, "prefix:"+pfx)
						if Col.WantSample("prim") {
							Col.Sample("prim", c)
						}
						Direct(t, "C18", "c18prim", fmt.Sprintf("prim/%s/%s/%v/%d", prim, pfx, le, n), c, oracleC18Prim)
						if prim == "strlist-inner" && (n == max || n == max+1) {
							// the same element after a few megabytes of valid elements
							lc := &CaseC18Prim{Prim: prim, Prefix: pfx, LE: le, N: n, Lead: (3<<20)/max + 1}
							Col.Case(Hash64(JSONOf(lc)), true, "primitive", cls, "prefix:"+pfx, "over-long element after megabytes of valid list data")
							Direct(t, "C18", "c18prim", fmt.Sprintf("prim/%s/%s/%v/%d/late", prim, pfx, le, n), lc, oracleC18Prim)
						}
					}
				}
			}
		}
		Col.MarkExhaustive("6 prefixed writers x {uint8,uint16 and defined types over them} x {BE,LE} x lengths {max-1,max,max+1,max+2,max+77,2max+2,3max+3}")
	})
	t.Run("element-error-propagates", func(t *testing.T) {
		for _, pfx := range PrefixTypes {
			for _, le := range []bool{false, true} {
				for _, at := range []int{0, 1, 3} {
					c := &CaseC18Elem{Prefix: pfx, LE: le, N: 4, FailAt: at}
					Col.Case(Hash64(JSONOf(c)), true, "objlist-element-refuses")
					Direct(t, "C18", "c18elem", fmt.Sprintf("elem/%s/%v/%d", pfx, le, at), c, oracleC18Elem)
				}
			}
		}
	})
	RunProps(t, rpC18())
	t.Run("giant-32bit", runC18Giant)
	t.Run("messages", func(t *testing.T) {
		for _, tn := range MyTypes() {
			ts := Types[tn]
			nkeys := 1
			if di := ts.DynIndex(); di >= 0 {
				nkeys = len(TableOf(ts, &ts.Fields[di]).Order)
			}
			seen := map[string]bool{}
			for k := 0; k < nkeys; k++ {
				var targets []c18Target
				c18Targets(Skeleton(tn, k), nil, &targets, 0)
				for _, tg := range targets {
					// the same nested field is reached under several keys that share a body type: once is enough
					id := fmt.Sprint(Skeleton(tn, k).F[max(0, ts.DynIndex())].O != nil && ts.DynIndex() >= 0, tg.path, tg.field, tg.inner)
					if ts.DynIndex() >= 0 && Skeleton(tn, k).F[ts.DynIndex()].O != nil {
						id = Skeleton(tn, k).F[ts.DynIndex()].O.Type + id
					}
					if seen[id] {
						continue
					}
					seen[id] = true
					if NSize(tg.ptype) > 2 {
						Col.Class("uint32-prefixed field (texts: driven to 2^32 bytes in giant-32bit over zero-page mappings; repeating groups of real elements: not driven, would need 2^32 resident elements)", 1)
						continue
					}
					max := int(NMask(tg.ptype))
					ns := []int{max, max + 1}
					if len(tg.path) == 0 {
						ns = append(ns, 2*max+2)
					}
					leads := []int{0}
					if tg.inner && len(tg.path) <= 1 {
						leads = append(leads, (3<<20)/max+1)
					}
					for _, n := range ns {
						for _, lead := range leads {
							if lead > 0 && n > max+1 {
								continue
							}
							c := &CaseC18Msg{Type: tn, Key: k, Path: tg.path, Field: tg.field, Inner: tg.inner, N: n, Lead: lead}
							cls := "at-max"
							if n > max {
								cls = "beyond-max"
							}
							nest := "top-level-field"
							if len(tg.path) > 0 {
								nest = "nested-field(error must propagate through the enclosing message)"
							}
							Col.Case(Hash64(JSONOf(c)), true, "message-field", cls, nest)
							Col.Program(tn)
							if Col.WantSample("msg:" + nest) {
								Col.Sample("msg:"+nest, c)
							}
							if lead > 0 {
								Col.Class("over-long entry after megabytes of valid entries", 1)
							}
							Direct(t, "C18", "c18msg", fmt.Sprintf("msg/%s/%d/%s/%v/%d/%d", tn, k, c18PathString(c), tg.inner, n, lead), c, oracleC18Msg)
						}
					}
				}
			}
		}
		Col.MarkExhaustive("every 16-bit-prefixed text/list field of every type, at top level and nested through parts, object-list elements and every body/extension type, at max and max+1")
	})
}

func rpC18() (out []RProp) {
	out = append(out, MkProp("C18", "c18prim", "primitives-random", func(rt *rapid.T) *CaseC18Prim {
		c := &CaseC18Prim{
			Prim:   rapid.SampledFrom([]string{"str", "numlist", "fixlist", "strlist", "strlist-inner", "objlist"}).Draw(rt, "prim"),
			Prefix: rapid.SampledFrom([]string{"uint8", "uint8", "uint16", "def-uint8", "def-uint16"}).Draw(rt, "prefix"),
			LE:     rapid.Bool().Draw(rt, "le"),
		}
		max := int(NMask(c.Prefix))
		c.N = rapid.OneOf(rapid.IntRange(max-2, max+3), rapid.IntRange(0, 3*max+5)).Draw(rt, "n")
		near := c.N >= max-2 && c.N <= max+2
		cls := []string{"primitive-random", "prefix:" + c.Prefix}
		if c.N > max {
			cls = append(cls, "beyond-max")
		} else {
			cls = append(cls, "at-or-below-max")
		}
		Col.Case(Hash64(JSONOf(c)), near || c.N > max, cls...)
		return c
	}, oracleC18Prim))
	return
}

func init() {
	RapidProps["C17"] = func() []RProp { return rpC17(TypeNames) }
	RapidProps["C18"] = rpC18
}

// CaseC17Geo: encode into a small buffer that has been written almost to the end of its array and partly consumed
// (read offset > 0, a few bytes of real tail space): the geometry of a session send buffer that is drained from the
// front while messages are appended. Encode must return normally whatever the geometry.
type CaseC17Geo struct {
	Type string `json:"type"`
	Key  int    `json:"key,omitempty"`
	Cap  int    `json:"cap"`
	Tail int    `json:"tail"` // free bytes between the written content and the end of the array
	Off  int    `json:"off"`  // bytes already consumed
}

func oracleC17Geo(c *CaseC17Geo) *Failure {
	obj := ToStruct(Skeleton(c.Type, c.Key))
	buf := bytes.NewBuffer(make([]byte, 0, c.Cap))
	buf.Write(bytes.Repeat([]byte{0xEE}, c.Cap-c.Tail))
	buf.Next(c.Off)
	unread := append([]byte{}, buf.Bytes()...)
	err, pan, _ := safely(func() error { return EncodeAny(obj, buf) })
	if pan != nil {
		return failf("C17/"+c.Type+"/panic", "Encode into a %d-byte buffer holding %d unread bytes after %d consumed ones (%d bytes of tail space) panicked: %v", c.Cap, len(unread), c.Off, c.Tail, pan)
	}
	if err == nil && (buf.Len() < len(unread) || !bytes.Equal(buf.Bytes()[:len(unread)], unread)) {
		return failf("C17/"+c.Type+"/lost-earlier-bytes", "Encode into a %d-byte buffer with %d unread bytes after %d consumed ones returned nil but the unread bytes are no longer in front of what it appended", c.Cap, len(unread), c.Off)
	}
	return nil
}

func init() { registerReplay("c17geo", oracleC17Geo) }

func runC17Geo(t *testing.T) {
	n := int64(0)
	for _, tn := range MyTypes() {
		for _, cp := range []int{24, 32, 64} {
			for tail := 0; tail <= 18 && tail < cp-2; tail++ {
				for _, off := range []int{1, 4, cp / 2, cp - tail - 1} {
					if off >= cp-tail || t.Failed() {
						continue
					}
					c := &CaseC17Geo{Type: tn, Cap: cp, Tail: tail, Off: off}
					n++
					if f := oracleC17Geo(c); f != nil {
						Col.Violation("C17", "c17geo", "geo/"+tn, f.Signature, f.Msg, "enumeration", c)
						t.Errorf("%s: %s", f.Signature, f.Msg)
					}
				}
			}
		}
		Col.Program(tn)
	}
	Col.Bulk(n, n, "buffer-geometry: small array, read offset > 0, 0..18 bytes of tail space")
	Col.MarkExhaustive("every type x array size {24,32,64} x tail space 0..18 x consumed {1,4,half,all but one}")
}
