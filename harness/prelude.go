package harness

// Prior calls ("prelude"): library calls made in the same process before the
// judged call. Properties quantify over inputs, but a defect can hide in state
// the library carries from one call to the next (pools, caches, memo tables,
// a scratch buffer left dirty on an error path). A case may therefore carry a
// short list of earlier calls, generated and replayed with it.

import (
	"bytes"

	"github.com/xinchentechnote/fin-proto-go/codec"
	"pgregory.net/rapid"
)

type PreOp struct {
	Kind string   `json:"kind"` // enc | dec | unreg
	Type string   `json:"type,omitempty"`
	V    *Value   `json:"v,omitempty"`
	W    HexBytes `json:"w,omitempty"`
	Algo string   `json:"algo,omitempty"`
}

// runPrelude performs the prior calls (results ignored, panics contained) and
// returns a function that restores any checksum service it unregistered.
func runPrelude(pre []PreOp) func() {
	saved := map[string]any{}
	for i := range pre {
		op := &pre[i]
		switch op.Kind {
		case "enc":
			obj := ToStruct(op.V)
			var buf bytes.Buffer
			_, _, _ = safely(func() error { return EncodeAny(obj, &buf) })
		case "dec":
			obj := regByName[op.Type].New()
			buf := bytes.NewBuffer(append([]byte{}, op.W...))
			_, _, _ = safely(func() error { return DecodeAny(obj, buf) })
		case "unreg":
			_, _, _ = safely(func() error {
				if s, ok := codec.Get(op.Algo); ok {
					saved[op.Algo] = s
					codec.Remove(op.Algo)
				}
				return nil
			})
		}
	}
	return func() {
		for name, s := range saved {
			name, s := name, s
			_, _, _ = safely(func() error {
				if _, ok := codec.Get(name); !ok {
					codec.Registry(s)
				}
				return nil
			})
		}
	}
}

// genPrelude draws 0..3 prior calls around a focus type. It returns the ops and
// the longest text/list length that a prior valid decode carried (a hint for
// hostile prefixes that stay below what an earlier call legitimately used).
func genPrelude(rt *rapid.T, focus string, registry bool) ([]PreOp, int) {
	if rapid.IntRange(0, 2).Draw(rt, "pre.any") != 2 {
		return nil, 0
	}
	n := rapid.IntRange(1, 3).Draw(rt, "pre.n")
	var ops []PreOp
	hint := 0
	for i := 0; i < n; i++ {
		tn := focus
		switch rapid.IntRange(0, 4).Draw(rt, "pre.which") {
		case 3:
			tn = frameOf(Types[focus].Module)
		case 4:
			tn = rapid.SampledFrom(TypeNames).Draw(rt, "pre.type")
		}
		kinds := []string{"enc", "enc", "dec", "dec"}
		if registry {
			kinds = append(kinds, "unreg")
		}
		switch rapid.SampledFrom(kinds).Draw(rt, "pre.kind") {
		case "enc":
			o := GenOpts{Mode: Arbitrary, MaxList: 300, BigProb: 30}
			v, _ := GenValue(rt, tn, o)
			ops = append(ops, PreOp{Kind: "enc", Type: tn, V: v})
		case "dec":
			o := GenOpts{Mode: Wire, MaxList: 70000, BigProb: 25, HugeProb: 250}
			v, _ := GenValue(rt, tn, o)
			r := Render(v, &RenderOpts{Spans: true})
			w := r.Bytes
			if rapid.IntRange(0, 2).Draw(rt, "pre.hostile") == 0 {
				w, _, _ = mutateHostile(rt, r, Types[tn].LE, 0)
			} else {
				for _, sp := range r.Spans {
					if (sp.Kind == "text" || sp.Kind == "elems") && sp.Len > hint {
						hint = sp.Len
					}
				}
			}
			ops = append(ops, PreOp{Kind: "dec", Type: tn, W: w})
		case "unreg":
			ops = append(ops, PreOp{Kind: "unreg", Algo: rapid.SampledFrom(c14Algos).Draw(rt, "pre.algo")})
		}
	}
	return ops, hint
}
