package harness

// Prior calls ("prelude"): library calls made in the same process before the
// judged call. Properties quantify over inputs, but a defect can hide in state
// the library carries from one call to the next (pools, caches, memo tables,
// a scratch buffer left dirty on an error path). A case may therefore carry a
// short list of earlier calls, generated and replayed with it.

import (
	"bytes"
	"errors"
	"io"
	"log/slog"
	"os"
	"reflect"
	"runtime"

	"github.com/xinchentechnote/fin-proto-go/codec"
	"pgregory.net/rapid"
)

type PreOp struct {
	Kind string   `json:"kind"`        // enc | dec | encdec | unreg | swapsvc | encfail | procs | slogdebug | setenv
	K    int      `json:"k,omitempty"` // procs: GOMAXPROCS for the case; encfail: bytes the foreign part writes before failing
	Type string   `json:"type,omitempty"`
	V    *Value   `json:"v,omitempty"`
	W    HexBytes `json:"w,omitempty"`
	Algo string   `json:"algo,omitempty"`
}

// runPrelude performs the prior calls (results ignored, panics contained) and
// returns a function that restores any checksum service it unregistered.
func runPrelude(pre []PreOp) func() {
	saved := map[string]any{}
	swapped := map[string]bool{}
	var undo []func()
	for i := range pre {
		op := &pre[i]
		switch op.Kind {
		case "enc":
			obj := ToStruct(op.V)
			var buf bytes.Buffer
			_, _, _ = safely(func() error { return EncodeAny(obj, &buf) })
			scribble(&buf)
		case "dec":
			obj := regByName[op.Type].New()
			buf := bytes.NewBuffer(append([]byte{}, op.W...))
			_, _, _ = safely(func() error { return DecodeAny(obj, buf) })
		case "encdec": // a pooled message object: first sent (encoded), then reused to receive another message of the type
			obj := ToStruct(op.V)
			var buf bytes.Buffer
			_, _, _ = safely(func() error { return EncodeAny(obj, &buf) })
			scribble(&buf)
			in := bytes.NewBuffer(append([]byte{}, op.W...))
			_, _, _ = safely(func() error { return DecodeAny(obj, in) })
		case "procs":
			old := runtime.GOMAXPROCS(max(1, op.K))
			undo = append(undo, func() { runtime.GOMAXPROCS(old) })
		case "slogdebug":
			old := slog.Default()
			slog.SetDefault(slog.New(slog.NewTextHandler(io.Discard, &slog.HandlerOptions{Level: slog.LevelDebug})))
			undo = append(undo, func() { slog.SetDefault(old) })
		case "setenv":
			name := op.Algo
			oldv, had := os.LookupEnv(name)
			os.Setenv(name, string(op.W))
			undo = append(undo, func() {
				if had {
					os.Setenv(name, oldv)
				} else {
					os.Unsetenv(name)
				}
			})
		case "swapsvc": // the named service is replaced by an equivalent one that READS its input instead of peeking at it
			_, _, _ = safely(func() error {
				if s, ok := codec.Get(op.Algo); ok {
					if _, mine := s.(interface{ readerStyle() }); !mine {
						saved[op.Algo] = s
						codec.Remove(op.Algo)
						codec.Registry(newReaderService(op.Algo))
						swapped[op.Algo] = true
					}
				}
				return nil
			})
		case "encfail": // a frame/extended message whose part is an application-defined codec that fails after writing K bytes
			if ts := Types[op.Type]; ts != nil && ts.DynIndex() >= 0 {
				obj := regByName[op.Type].New()
				fv := reflect.ValueOf(obj).Elem().FieldByName(ts.Fields[ts.DynIndex()].Go)
				if fv.IsValid() && fv.CanSet() {
					fv.Set(reflect.ValueOf(&PartialFail{N: op.K}))
					var buf bytes.Buffer
					_, _, _ = safely(func() error { return EncodeAny(obj, &buf) })
					scribble(&buf)
				}
			}
		case "unreg":
			_, _, _ = safely(func() error {
				if s, ok := codec.Get(op.Algo); ok {
					saved[op.Algo] = s
					codec.Remove(op.Algo)
				}
				return nil
			})
		}
	}
	return func() {
		for name, s := range saved {
			name, s := name, s
			_, _, _ = safely(func() error {
				if swapped[name] {
					codec.Remove(name)
				}
				if _, ok := codec.Get(name); !ok {
					codec.Registry(s)
				}
				return nil
			})
		}
		for i := len(undo) - 1; i >= 0; i-- {
			undo[i]()
		}
	}
}

// genPrelude draws 0..3 prior calls around a focus type. It returns the ops and
// the longest text/list length that a prior valid decode carried (a hint for
// hostile prefixes that stay below what an earlier call legitimately used).
func genPrelude(rt *rapid.T, focus string, registry bool) ([]PreOp, int) {
	if rapid.IntRange(0, 2).Draw(rt, "pre.any") != 2 {
		return nil, 0
	}
	n := rapid.IntRange(1, 3).Draw(rt, "pre.n")
	var ops []PreOp
	hint := 0
	for i := 0; i < n; i++ {
		tn := focus
		switch rapid.IntRange(0, 4).Draw(rt, "pre.which") {
		case 3:
			tn = frameOf(Types[focus].Module)
		case 4:
			tn = rapid.SampledFrom(TypeNames).Draw(rt, "pre.type")
		}
		kinds := []string{"enc", "enc", "enc", "dec", "dec", "dec", "env", "encfail", "encdec", "encdec"}
		if registry {
			kinds = append(kinds, "unreg")
		}
		switch rapid.SampledFrom(kinds).Draw(rt, "pre.kind") {
		case "env":
			ops = append(ops, genEnvKnob(rt))
		case "encfail":
			holder := frameOf(Types[focus].Module)
			if Types[tn].DynIndex() >= 0 {
				holder = tn
			}
			ops = append(ops, PreOp{Kind: "encfail", Type: holder, K: rapid.SampledFrom([]int{0, 1, 7, 28, 200}).Draw(rt, "pre.failafter")})
		case "enc":
			o := GenOpts{Mode: Arbitrary, MaxList: 300, BigProb: 30}
			v, _ := GenValue(rt, tn, o)
			ops = append(ops, PreOp{Kind: "enc", Type: tn, V: v})
		case "encdec":
			v, _ := GenValue(rt, tn, GenOpts{Mode: Arbitrary, MaxList: 50, BigProb: 0})
			wv, _ := GenValue(rt, tn, GenOpts{Mode: Wire, MaxList: 50, BigProb: 0})
			ops = append(ops, PreOp{Kind: "encdec", Type: tn, V: v, W: Render(wv, nil).Bytes})
		case "dec":
			o := GenOpts{Mode: Wire, MaxList: 70000, BigProb: 25, HugeProb: 250}
			v, _ := GenValue(rt, tn, o)
			r := Render(v, &RenderOpts{Spans: true})
			w := r.Bytes
			if rapid.IntRange(0, 2).Draw(rt, "pre.hostile") == 0 {
				w, _, _ = mutateHostile(rt, r, Types[tn].LE, 0)
			} else {
				for _, sp := range r.Spans {
					if (sp.Kind == "text" || sp.Kind == "elems") && sp.Len > hint {
						hint = sp.Len
					}
				}
			}
			ops = append(ops, PreOp{Kind: "dec", Type: tn, W: w})
		case "unreg":
			ops = append(ops, PreOp{Kind: "unreg", Algo: rapid.SampledFrom(c14Algos).Draw(rt, "pre.algo")})
		}
	}
	return ops, hint
}

// PartialFail: an application-defined part (body/extension) that writes N bytes and then refuses.
type PartialFail struct{ N int }

func (p *PartialFail) Encode(buf *bytes.Buffer) error {
	buf.Write(bytes.Repeat([]byte{0xEE}, p.N))
	return errors.New("application-defined part refuses to encode")
}
func (p *PartialFail) Decode(buf *bytes.Buffer) error { return errors.New("not decodable") }

// reader-style checksum services: same algorithms (the harness' references), but they consume the buffer they are given.
type readerSvc16 struct{ algo string }
type readerSvc32 struct{ algo string }
type readerSvcI32 struct{ algo string }

func drain(data *bytes.Buffer) []byte {
	b := make([]byte, data.Len())
	_, _ = io.ReadFull(data, b)
	return b
}
func (s *readerSvc16) Algorithm() string { return s.algo }
func (s *readerSvc16) readerStyle()      {}
func (s *readerSvc16) Calc(data *bytes.Buffer) uint16 {
	return uint16(refChecksum(s.algo, drain(data)))
}
func (s *readerSvc32) Algorithm() string { return s.algo }
func (s *readerSvc32) readerStyle()      {}
func (s *readerSvc32) Calc(data *bytes.Buffer) uint32 {
	return uint32(refChecksum(s.algo, drain(data)))
}
func (s *readerSvcI32) Algorithm() string             { return s.algo }
func (s *readerSvcI32) readerStyle()                  {}
func (s *readerSvcI32) Calc(data *bytes.Buffer) int32 { return int32(refChecksum(s.algo, drain(data))) }

func newReaderService(algo string) any {
	switch algo {
	case "CRC16":
		return &readerSvc16{algo}
	case "SZSE_BIN":
		return &readerSvcI32{algo}
	}
	return &readerSvc32{algo}
}

// genEnvKnob draws one process-wide setting a library might consult.
func genEnvKnob(rt *rapid.T) PreOp {
	kinds := []string{"procs", "procs", "slogdebug", "swapsvc"}
	if len(Dict.EnvNames) > 0 {
		kinds = append(kinds, "setenv", "setenv")
	}
	switch rapid.SampledFrom(kinds).Draw(rt, "env.kind") {
	case "procs":
		return PreOp{Kind: "procs", K: rapid.SampledFrom([]int{1, 1, 2, 3}).Draw(rt, "env.procs")}
	case "slogdebug":
		return PreOp{Kind: "slogdebug"}
	case "setenv":
		return PreOp{Kind: "setenv", Algo: rapid.SampledFrom(Dict.EnvNames).Draw(rt, "env.name"), W: HexBytes(rapid.SampledFrom([]string{"1", "true", "debug", ""}).Draw(rt, "env.val"))}
	}
	return PreOp{Kind: "swapsvc", Algo: rapid.SampledFrom(c14Algos).Draw(rt, "env.algo")}
}
