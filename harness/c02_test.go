package harness

// C02 — every message is laid out on the wire exactly as the pinned schema says.
// Differential test, both directions, against the independent interpreter.

import (
	"bytes"
	"testing"

	"pgregory.net/rapid"
)

type CaseC02 struct {
	Type  string  `json:"type"`
	Dir   string  `json:"dir"` // enc: value -> bytes ; dec: schema-valid wire bytes -> value
	V     *Value  `json:"v"`
	Pre   []PreOp `json:"pre,omitempty"`   // prior calls in the same process
	Prior *Value  `json:"prior,omitempty"` // dec directions: the receiver has decoded this other message of the type before
}

func oracleC02(c *CaseC02) *Failure {
	defer runPrelude(c.Pre)()
	if c.Dir == "enc" {
		r := Render(c.V, nil)
		if r.MustError {
			return nil // the pinned behaviour is an error: judged by C12/C18, not here
		}
		out, _, err, pan := LibEncode(c.V)
		if r.MayError && (err != nil || pan != nil) {
			return nil // outside what the schema defines (absent part); C17 judges panics
		}
		if pan != nil {
			return failf("C02/"+c.Type+"/encode-panic", "Encode panicked: %v", pan)
		}
		if err != nil {
			return failf("C02/"+c.Type+"/encode-error", "Encode returned %v on a value the schema renders", err)
		}
		if !bytes.Equal(out, r.Bytes) {
			i := firstDiff(out, r.Bytes)
			return failf("C02/"+c.Type+"/layout", "library wrote %d bytes %s, pinned schema renders %d bytes %s; first difference at byte %d (%s)",
				len(out), hexClip(out), len(r.Bytes), hexClip(r.Bytes), i, spanAt(c.V, i))
		}
		return nil
	}
	if c.Dir == "dec-unknown-key" {
		// the wire carries an unregistered discriminator value: the schema defines no body type for it, so a
		// decoder that follows the schema cannot accept the message
		w := Render(c.V, nil).Bytes
		if _, _, perr := Parse(c.Type, w); perr != ErrUnknownKey {
			return nil // (the generated key happened to be registered after all, or the harness built something else)
		}
		got, _, err, pan := LibDecodeInto(UsedReceiver(c.Type, c.Prior), c.Type, w)
		if pan != nil {
			return failf("C02/"+c.Type+"/decode-panic", "Decode panicked on an unregistered discriminator: %v", pan)
		}
		if err == nil {
			gt := "<nil>"
			if di := Types[c.Type].DynIndex(); got != nil && got.F[di].O != nil {
				gt = got.F[di].O.Type
			}
			return failf("C02/"+c.Type+"/decode-unknown-key-accepted", "discriminator %q selects no body type in the pinned schema, yet Decode accepted the message and built %s", keyOfValue(c.V), gt)
		}
		return nil
	}
	// dec
	r := Render(c.V, nil)
	if r.MustError || r.MayError {
		Col.BrokenHarness("C02 wire generator left the schema-valid domain: " + r.Why)
		return nil
	}
	want, n, perr := Parse(c.Type, r.Bytes)
	if perr != nil || n != len(r.Bytes) {
		Col.BrokenHarness("interpreter cannot parse its own rendering of " + c.Type)
		return nil
	}
	got, rest, err, pan := LibDecodeInto(UsedReceiver(c.Type, c.Prior), c.Type, r.Bytes)
	if pan != nil {
		return failf("C02/"+c.Type+"/decode-panic", "Decode panicked on a schema-valid message: %v", pan)
	}
	if err != nil {
		return failf("C02/"+c.Type+"/decode-rejects", "Decode rejected a schema-valid message (%d bytes %s): %v", len(r.Bytes), hexClip(r.Bytes), err)
	}
	if len(rest) != 0 {
		return failf("C02/"+c.Type+"/decode-length", "Decode left %d of %d bytes of a schema-valid message unread", len(rest), len(r.Bytes))
	}
	if d := Diff(got, want); d != "" {
		return failf("C02/"+c.Type+"/decode-value", "decoded value differs from the schema's reading: %s", d)
	}
	return nil
}

func keyOfValue(v *Value) string {
	ts := Types[v.Type]
	di := ts.DynIndex()
	if di < 0 {
		return ""
	}
	return KeyOf(v, ts, &ts.Fields[di], false)
}

// spanAt names the schema field that covers byte offset i of the pinned rendering.
func spanAt(v *Value, i int) string {
	r := Render(v, &RenderOpts{Spans: true})
	best := "beyond the rendering"
	for _, sp := range r.Spans {
		if sp.Kind == "body" || sp.Kind == "elems" {
			continue
		}
		if i >= sp.Off && i < sp.Off+sp.Len {
			best = sp.Path + " [" + sp.Kind + "]"
		}
	}
	return best
}

func init() { registerReplay("c02", oracleC02) }

// --- measured non-triviality: does the value distinguish plausible layout changes? ---

var perturbKinds = []string{"byte-order", "swap-neighbours", "width+1", "pad-byte", "pad-side", "prefix-width"}

// perturbations returns, per kind, whether it is applicable to the value's type
// tree and whether the perturbed rendering differs from the pinned one.
func perturbations(v *Value, pinned []byte, salt uint64, dec bool) (applicable, differs map[string]bool) {
	applicable, differs = map[string]bool{}, map[string]bool{}
	var pinnedParse *Value
	if dec {
		pinnedParse, _, _ = Parse(v.Type, pinned)
	}
	try := func(kind string, o *RenderOpts) {
		applicable[kind] = true
		if dec {
			// decode direction: would a decoder following the perturbed schema read these bytes differently?
			pv, n, err := ParseWith(v.Type, pinned, o)
			if err != nil || n != len(pinned) || Diff(pv, pinnedParse) != "" {
				differs[kind] = true
			}
			return
		}
		if !bytes.Equal(Render(v, o).Bytes, pinned) {
			differs[kind] = true
		}
	}
	try("byte-order", &RenderOpts{FlipEndian: true})
	// collect candidate targets over the types that occur in the value
	type target struct {
		ts *TypeSchema
		i  int
	}
	var fix, pref, swaps []target
	seen := map[string]bool{}
	var walk func(x *Value)
	walk = func(x *Value) {
		if x == nil || seen[x.Type] {
			return
		}
		seen[x.Type] = true
		ts := Types[x.Type]
		for i, f := range ts.Fields {
			switch f.Kind {
			case "fixtext", "fixtextlist":
				fix = append(fix, target{ts, i})
			}
			switch f.Kind {
			case "text", "numlist", "fixtextlist", "textlist", "objlist":
				pref = append(pref, target{ts, i})
			}
			if i+1 < len(ts.Fields) && ts.Fields[i+1].Kind == f.Kind && (f.Kind == "num" || f.Kind == "fixtext") {
				swaps = append(swaps, target{ts, i})
			}
			for _, o := range x.F[i].OL {
				walk(o)
				break
			}
			walk(x.F[i].O)
		}
	}
	walk(v)
	pick := func(l []target, k uint64) (target, bool) {
		if len(l) == 0 {
			return target{}, false
		}
		return l[splitmix(salt+k)%uint64(len(l))], true
	}
	hookOn := func(tg target, mod func(f *Field)) *RenderOpts {
		return &RenderOpts{FieldHook: func(ts *TypeSchema, i int, f *Field) {
			if ts == tg.ts && i == tg.i {
				mod(f)
			}
		}}
	}
	if tg, ok := pick(swaps, 1); ok {
		try("swap-neighbours", &RenderOpts{SwapAt: func(ts *TypeSchema) int {
			if ts == tg.ts {
				return tg.i
			}
			return -1
		}})
	}
	if tg, ok := pick(fix, 2); ok {
		try("width+1", hookOn(tg, func(f *Field) { f.Width++ }))
	}
	if tg, ok := pick(fix, 3); ok {
		try("pad-byte", hookOn(tg, func(f *Field) {
			if f.Pad == ' ' {
				f.Pad = '0'
			} else {
				f.Pad = ' '
			}
		}))
	}
	if tg, ok := pick(fix, 4); ok {
		try("pad-side", hookOn(tg, func(f *Field) { f.Left = !f.Left }))
	}
	if tg, ok := pick(pref, 5); ok {
		wider := map[string]string{"uint8": "uint16", "uint16": "uint32", "uint32": "uint16", "uint64": "uint32"}
		try("prefix-width", hookOn(tg, func(f *Field) {
			if f.Kind == "text" {
				f.Prefix = wider[f.Prefix]
			} else {
				f.Count = wider[f.Count]
			}
		}))
	}
	return
}

func c02Record(c *CaseC02, ft *Features) {
	r := Render(c.V, nil)
	cls := append(ft.Classes(), "dir:"+c.Dir, "module:"+Types[c.Type].Module)
	nt := false
	if len(r.Bytes) <= 1<<14 {
		app, dif := perturbations(c.V, r.Bytes, Hash64(r.Bytes), c.Dir == "dec")
		for _, k := range perturbKinds {
			if app[k] {
				cls = append(cls, c.Dir+":applicable:"+k)
			}
			if dif[k] {
				cls = append(cls, c.Dir+":distinguishes:"+k)
				nt = true
			}
		}
	} else {
		nt = true
		cls = append(cls, "large(>16KiB, perturbations not evaluated)")
	}
	if r.MustError {
		cls = append(cls, "pinned-error(not judged here)")
		nt = false
	}
	if r.MayError {
		cls = append(cls, "absent-part(judged only if encoded)")
	}
	Col.Case(Hash64([]byte(c.Type), []byte(c.Dir), r.Bytes), nt, cls...)
	Col.Program(c.Type)
	if nt && Col.WantSample(c.Dir) && len(r.Bytes) < 300 {
		Col.Sample(c.Dir, map[string]any{"type": c.Type, "dir": c.Dir, "value": c.V, "pinned_bytes": hexClip(r.Bytes)})
	}
}

func TestC02(t *testing.T) {
	Col.Property = "C02"
	ReplayRegress(t, "C02")
	RunProps(t, rpC02(MyTypes()))
}

func init() { RapidProps["C02"] = func() []RProp { return rpC02(TypeNames) } }

func rpC02(types []string) (out []RProp) {
	for _, tn := range types {
		tn := tn
		out = append(out, MkProp("C02", "c02", tn+"/enc", func(rt *rapid.T) *CaseC02 {
			pre, _ := genPrelude(rt, tn, false)
			v, ft := GenValue(rt, tn, DefaultOpts(Arbitrary))
			c := &CaseC02{Type: tn, Dir: "enc", V: v, Pre: pre}
			if len(pre) > 0 {
				Col.Class("after-prior-calls", 1)
			}
			c02Record(c, ft)
			return c
		}, oracleC02))
		if Types[tn].DynIndex() >= 0 {
			ts := Types[tn]
			tb := TableOf(ts, &ts.Fields[ts.DynIndex()])
			df := &ts.Fields[ts.FieldIndex(ts.Fields[ts.DynIndex()].Disc)]
			out = append(out, MkProp("C02", "c02", tn+"/dec-unknown-key", func(rt *rapid.T) *CaseC02 {
				g := &gen{rt: rt, feat: &Features{}, mult: 1}
				key := g.unregisteredKey("key", tb, df)
				pt := tb.TypeFor(tb.Order[rapid.IntRange(0, len(tb.Order)-1).Draw(rt, "part")])
				v := holderWithKeyRT(rt, tb, key, true, pt)
				c := &CaseC02{Type: tn, Dir: "dec-unknown-key", V: v}
				if rapid.IntRange(0, 2).Draw(rt, "used") == 0 {
					// a receiver that has decoded a message with a registered key before
					c.Prior, _ = GenValue(rt, tn, GenOpts{Mode: Canonical, MaxList: 20})
					Col.Class("unknown-key-into-a-used-receiver", 1)
				}
				Col.Case(Hash64([]byte(tn), []byte("unk"), []byte(key)), true, "dir:dec-unknown-key", "module:"+ts.Module)
				Col.Program(tn)
				return c
			}, oracleC02))
		}
		out = append(out, MkProp("C02", "c02", tn+"/dec", func(rt *rapid.T) *CaseC02 {
			pre, _ := genPrelude(rt, tn, false)
			v, ft := GenValue(rt, tn, DefaultOpts(Wire))
			c := &CaseC02{Type: tn, Dir: "dec", V: v, Pre: pre}
			if len(pre) > 0 {
				Col.Class("after-prior-calls", 1)
			}
			if hasVariableParts(tn) && rapid.IntRange(0, 3).Draw(rt, "used") == 0 {
				c.Prior, _ = GenValue(rt, tn, GenOpts{Mode: Canonical, MaxList: 40})
				Col.Class("decoded-into-a-receiver-that-held-another-message", 1)
			}
			c02Record(c, ft)
			return c
		}, oracleC02))
	}
	return
}
