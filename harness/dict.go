package harness

// Dictionary of constants harvested from the source of the tree under test
// (standard fuzzing practice: magic values in the code are the values most
// likely to steer it). Literals that are NOT in the baseline dictionary pinned
// under /verif/schema/dict_baseline.json - i.e. constants that are new in the
// tree being checked - are preferred. This only feeds input generation; no
// oracle depends on it.

import (
	"encoding/json"
	"os"
	"path/filepath"
	"regexp"
	"sort"
	"strconv"
	"strings"

	"pgregory.net/rapid"
)

type Dictionary struct {
	Words    []string `json:"words"`   // string literals (1..24 bytes)
	Numbers  []uint64 `json:"numbers"` // integer literals
	EnvNames []string `json:"env"`     // names passed to os.Getenv / os.LookupEnv
	Novel    []string `json:"-"`       // words not in the pinned baseline
	NovelNum []uint64 `json:"-"`
}

var Dict = &Dictionary{}

var (
	reStr  = regexp.MustCompile(`"((?:[^"\\\n]|\\.)*)"`)
	reNum  = regexp.MustCompile(`\b(0[xX][0-9a-fA-F_]+|[0-9][0-9_]*)\b`)
	reEnv  = regexp.MustCompile(`os\.(?:Getenv|LookupEnv)\(\s*"([^"]+)"`)
	reCaps = regexp.MustCompile(`"([A-Z][A-Z0-9_]{2,40})"`)
)

func repoDir() string {
	if d := os.Getenv("VERIF_REPO_DIR"); d != "" {
		return d
	}
	return "/repo"
}

// HarvestDictionary scans the non-test Go sources of the tree under test.
func HarvestDictionary(root string) *Dictionary {
	words, nums, envs := map[string]bool{}, map[uint64]bool{}, map[string]bool{}
	_ = filepath.Walk(root, func(path string, info os.FileInfo, err error) error {
		if err != nil {
			return nil
		}
		if info.IsDir() {
			if n := info.Name(); n == ".git" || n == "submodules" || n == "vendor" {
				return filepath.SkipDir
			}
			return nil
		}
		if !strings.HasSuffix(path, ".go") || strings.HasSuffix(path, "_test.go") {
			return nil
		}
		b, err := os.ReadFile(path)
		if err != nil {
			return nil
		}
		readsEnv := strings.Contains(string(b), "os.Getenv") || strings.Contains(string(b), "os.LookupEnv") || strings.Contains(string(b), "os.Environ")
		if readsEnv { // names may be held in constants: every ALL_CAPS literal of a file that reads the environment is a candidate
			for _, m := range reCaps.FindAllStringSubmatch(string(b), -1) {
				envs[m[1]] = true
			}
		}
		for _, line := range strings.Split(string(b), "\n") {
			t := strings.TrimSpace(line)
			if strings.HasPrefix(t, "//") || strings.Contains(t, "fmt.Sprintf(\"") && strings.Contains(t, "{") {
				continue // comments and the generated String() methods
			}
			for _, m := range reEnv.FindAllStringSubmatch(line, -1) {
				envs[m[1]] = true
			}
			for _, m := range reStr.FindAllStringSubmatch(line, -1) {
				s, err := strconv.Unquote(`"` + m[1] + `"`)
				if err != nil || len(s) == 0 || len(s) > 24 || strings.Contains(s, "%") {
					continue
				}
				words[s] = true
			}
			for _, m := range reNum.FindAllStringSubmatch(line, -1) {
				if v, err := strconv.ParseUint(strings.ReplaceAll(m[1], "_", ""), 0, 64); err == nil {
					nums[v] = true
				}
			}
		}
		return nil
	})
	d := &Dictionary{}
	for w := range words {
		d.Words = append(d.Words, w)
	}
	for n := range nums {
		d.Numbers = append(d.Numbers, n)
	}
	for e := range envs {
		d.EnvNames = append(d.EnvNames, e)
	}
	sort.Strings(d.Words)
	sort.Strings(d.EnvNames)
	sort.Slice(d.Numbers, func(i, j int) bool { return d.Numbers[i] < d.Numbers[j] })
	return d
}

// LoadDictionary harvests the current tree and marks what is new relative to the pinned baseline.
func LoadDictionary() {
	d := HarvestDictionary(repoDir())
	base := &Dictionary{}
	if b, err := os.ReadFile(filepath.Join(VerifRoot(), "schema", "dict_baseline.json")); err == nil {
		_ = json.Unmarshal(b, base)
	}
	bw, bn := map[string]bool{}, map[uint64]bool{}
	for _, w := range base.Words {
		bw[w] = true
	}
	for _, n := range base.Numbers {
		bn[n] = true
	}
	if len(base.Words) > 0 {
		for _, w := range d.Words {
			if !bw[w] {
				d.Novel = append(d.Novel, w)
			}
		}
		for _, n := range d.Numbers {
			if !bn[n] {
				d.NovelNum = append(d.NovelNum, n)
			}
		}
	}
	Dict = d
}

// dictWord draws a word, preferring constants that are new in the tree under test.
func dictWord(rt *rapid.T, label string) ([]byte, bool) {
	if len(Dict.Novel) > 0 && rapid.IntRange(0, 2).Draw(rt, label+".novel") > 0 {
		return []byte(Dict.Novel[rapid.IntRange(0, len(Dict.Novel)-1).Draw(rt, label+".nw")]), true
	}
	if len(Dict.Words) == 0 {
		return nil, false
	}
	return []byte(Dict.Words[rapid.IntRange(0, len(Dict.Words)-1).Draw(rt, label+".w")]), true
}

func dictNumber(rt *rapid.T, label string) (uint64, bool) {
	if len(Dict.NovelNum) > 0 && rapid.IntRange(0, 2).Draw(rt, label+".novel") > 0 {
		return Dict.NovelNum[rapid.IntRange(0, len(Dict.NovelNum)-1).Draw(rt, label+".nn")], true
	}
	if len(Dict.Numbers) == 0 {
		return 0, false
	}
	return Dict.Numbers[rapid.IntRange(0, len(Dict.Numbers)-1).Draw(rt, label+".n")], true
}
