package harness

// Type-erased access to the library's generic primitives, so that generated
// cases can choose prefix and element types at run time.

import (
	"bytes"
	"errors"
	"math"

	"github.com/xinchentechnote/fin-proto-go/codec"
	"golang.org/x/exp/constraints"
)

// Defined (named) types: the primitives are generic over ~int8 | ... | ~float64 and over constraints.Unsigned,
// so a caller may instantiate them with its own types; the properties hold for those as well.
type (
	DefI64 int64
	DefU16 uint16
	DefU32 uint32
	DefF32 float32
	DefI8  int8
	DefP8  uint8
	DefP16 uint16
	DefP32 uint32
)

var (
	ElemTypes   = []string{"int8", "int16", "int32", "int64", "uint8", "uint16", "uint32", "uint64", "float32", "float64", "def-int64", "def-uint16", "def-uint32", "def-float32", "def-int8"}
	PrefixTypes = []string{"uint8", "uint16", "uint32", "uint64", "def-uint8", "def-uint16", "def-uint32"}
)

func fromBits[K codec.BasicType](b uint64) K {
	var k K
	switch p := any(&k).(type) {
	case *int8:
		*p = int8(b)
	case *int16:
		*p = int16(b)
	case *int32:
		*p = int32(b)
	case *int64:
		*p = int64(b)
	case *uint8:
		*p = uint8(b)
	case *uint16:
		*p = uint16(b)
	case *uint32:
		*p = uint32(b)
	case *uint64:
		*p = b
	case *float32:
		*p = math.Float32frombits(uint32(b))
	case *float64:
		*p = math.Float64frombits(b)
	case *DefI64:
		*p = DefI64(int64(b))
	case *DefU16:
		*p = DefU16(uint16(b))
	case *DefU32:
		*p = DefU32(uint32(b))
	case *DefF32:
		*p = DefF32(math.Float32frombits(uint32(b)))
	case *DefI8:
		*p = DefI8(int8(b))
	default:
		panic("fromBits: unsupported element type")
	}
	return k
}

func toBits[K codec.BasicType](k K) uint64 {
	switch p := any(&k).(type) {
	case *int8:
		return uint64(uint8(*p))
	case *int16:
		return uint64(uint16(*p))
	case *int32:
		return uint64(uint32(*p))
	case *int64:
		return uint64(*p)
	case *uint8:
		return uint64(*p)
	case *uint16:
		return uint64(*p)
	case *uint32:
		return uint64(*p)
	case *uint64:
		return *p
	case *float32:
		return uint64(math.Float32bits(*p))
	case *float64:
		return math.Float64bits(*p)
	case *DefI64:
		return uint64(int64(*p))
	case *DefU16:
		return uint64(*p)
	case *DefU32:
		return uint64(*p)
	case *DefF32:
		return uint64(math.Float32bits(float32(*p)))
	case *DefI8:
		return uint64(uint8(*p))
	}
	panic("toBits")
}

type scalarOps struct {
	write func(buf *bytes.Buffer, le bool, bits uint64) error
	read  func(buf *bytes.Buffer, le bool) (uint64, error)
}

type numListOps struct {
	write func(buf *bytes.Buffer, le bool, vals []uint64) error
	read  func(buf *bytes.Buffer, le bool) ([]uint64, error)
}

type strOps struct {
	write func(buf *bytes.Buffer, le bool, s string) error
	read  func(buf *bytes.Buffer, le bool) (string, error)
}

type fixListOps struct {
	write func(buf *bytes.Buffer, le bool, vals []string, n int, pad rune, left bool) error
	read  func(buf *bytes.Buffer, le bool, n int, pad rune, left bool) ([]string, error)
}

type strListOps struct {
	write func(buf *bytes.Buffer, le bool, vals []string) error
	read  func(buf *bytes.Buffer, le bool) ([]string, error)
}

type objListOps struct {
	write func(buf *bytes.Buffer, le bool, vals []*Blob) error
	read  func(buf *bytes.Buffer, le bool) ([]*Blob, error)
}

// Blob: a harness-side BinaryCodec element whose encoding has no byte order
// (one length byte + payload), for the object-list primitives.
type Blob struct {
	P      []byte
	Refuse bool // Encode returns an error (stands for an element that holds an over-long field)
}

func (b *Blob) Encode(buf *bytes.Buffer) error {
	if b.Refuse {
		return errors.New("blob: element refuses to encode")
	}
	buf.WriteByte(byte(len(b.P)))
	buf.Write(b.P)
	return nil
}
func (b *Blob) Decode(buf *bytes.Buffer) error {
	n, err := buf.ReadByte()
	if err != nil {
		return err
	}
	b.P = make([]byte, n)
	if m, _ := buf.Read(b.P); m != int(n) {
		return bytes.ErrTooLarge
	}
	return nil
}

var (
	Scalars  = map[string]scalarOps{}
	NumLists = map[string]numListOps{} // key: prefix + "," + elem
	Strs     = map[string]strOps{}
	FixLists = map[string]fixListOps{}
	StrLists = map[string]strListOps{} // key: count + "," + prefix
	ObjLists = map[string]objListOps{}
)

func regScalar[K codec.BasicType](name string) {
	Scalars[name] = scalarOps{
		write: func(buf *bytes.Buffer, le bool, bits uint64) error {
			if le {
				return codec.WriteBasicTypeLE(buf, fromBits[K](bits))
			}
			return codec.WriteBasicType(buf, fromBits[K](bits))
		},
		read: func(buf *bytes.Buffer, le bool) (uint64, error) {
			var v K
			var err error
			if le {
				v, err = codec.ReadBasicTypeLE[K](buf)
			} else {
				v, err = codec.ReadBasicType[K](buf)
			}
			return toBits(v), err
		},
	}
}

func regNumList[T constraints.Unsigned, K codec.BasicType](pname, ename string) {
	NumLists[pname+","+ename] = numListOps{
		write: func(buf *bytes.Buffer, le bool, vals []uint64) error {
			var ks []K
			if vals != nil {
				ks = make([]K, len(vals))
				for i, b := range vals {
					ks[i] = fromBits[K](b)
				}
			}
			if le {
				return codec.WriteBasicTypeListLE[T](buf, ks)
			}
			return codec.WriteBasicTypeList[T](buf, ks)
		},
		read: func(buf *bytes.Buffer, le bool) ([]uint64, error) {
			var ks []K
			var err error
			if le {
				ks, err = codec.ReadBasicTypeListLE[T, K](buf)
			} else {
				ks, err = codec.ReadBasicTypeList[T, K](buf)
			}
			if err != nil {
				return nil, err
			}
			out := make([]uint64, len(ks))
			for i, k := range ks {
				out[i] = toBits(k)
			}
			return out, nil
		},
	}
}

func regNumListsFor[T constraints.Unsigned](pname string) {
	regNumList[T, int8](pname, "int8")
	regNumList[T, int16](pname, "int16")
	regNumList[T, int32](pname, "int32")
	regNumList[T, int64](pname, "int64")
	regNumList[T, uint8](pname, "uint8")
	regNumList[T, uint16](pname, "uint16")
	regNumList[T, uint32](pname, "uint32")
	regNumList[T, uint64](pname, "uint64")
	regNumList[T, float32](pname, "float32")
	regNumList[T, float64](pname, "float64")
	regNumList[T, DefI64](pname, "def-int64")
	regNumList[T, DefU16](pname, "def-uint16")
	regNumList[T, DefU32](pname, "def-uint32")
	regNumList[T, DefF32](pname, "def-float32")
	regNumList[T, DefI8](pname, "def-int8")
}

func regStrListsFor[T constraints.Unsigned](cname string) {
	regStrList[T, uint8](cname, "uint8")
	regStrList[T, uint16](cname, "uint16")
	regStrList[T, uint32](cname, "uint32")
	regStrList[T, uint64](cname, "uint64")
	regStrList[T, DefP8](cname, "def-uint8")
	regStrList[T, DefP16](cname, "def-uint16")
	regStrList[T, DefP32](cname, "def-uint32")
}

func regStrList[T constraints.Unsigned, K constraints.Unsigned](cname, pname string) {
	StrLists[cname+","+pname] = strListOps{
		write: func(buf *bytes.Buffer, le bool, vals []string) error {
			if le {
				return codec.WriteStringListLE[T, K](buf, vals)
			}
			return codec.WriteStringList[T, K](buf, vals)
		},
		read: func(buf *bytes.Buffer, le bool) ([]string, error) {
			if le {
				return codec.ReadStringListLE[T, K](buf)
			}
			return codec.ReadStringList[T, K](buf)
		},
	}
}

func regPrefix[T constraints.Unsigned](pname string) {
	regNumListsFor[T](pname)
	regStrListsFor[T](pname)
	Strs[pname] = strOps{
		write: func(buf *bytes.Buffer, le bool, s string) error {
			if le {
				return codec.WriteStringLE[T](buf, s)
			}
			return codec.WriteString[T](buf, s)
		},
		read: func(buf *bytes.Buffer, le bool) (string, error) {
			if le {
				return codec.ReadStringLE[T](buf)
			}
			return codec.ReadString[T](buf)
		},
	}
	FixLists[pname] = fixListOps{
		write: func(buf *bytes.Buffer, le bool, vals []string, n int, pad rune, left bool) error {
			if le {
				return codec.WriteFixedStringListWithPaddingLE[T](buf, vals, n, pad, left)
			}
			return codec.WriteFixedStringListWithPadding[T](buf, vals, n, pad, left)
		},
		read: func(buf *bytes.Buffer, le bool, n int, pad rune, left bool) ([]string, error) {
			if le {
				return codec.ReadFixedStringListTrimPaddingLE[T](buf, n, pad, left)
			}
			return codec.ReadFixedStringListTrimPadding[T](buf, n, pad, left)
		},
	}
	ObjLists[pname] = objListOps{
		write: func(buf *bytes.Buffer, le bool, vals []*Blob) error {
			if le {
				return codec.WriteObjectListLE[T](buf, vals)
			}
			return codec.WriteObjectList[T](buf, vals)
		},
		read: func(buf *bytes.Buffer, le bool) ([]*Blob, error) {
			if le {
				return codec.ReadObjectListLE[T](buf, func() *Blob { return &Blob{} })
			}
			return codec.ReadObjectList[T](buf, func() *Blob { return &Blob{} })
		},
	}
}

func init() {
	regScalar[int8]("int8")
	regScalar[int16]("int16")
	regScalar[int32]("int32")
	regScalar[int64]("int64")
	regScalar[uint8]("uint8")
	regScalar[uint16]("uint16")
	regScalar[uint32]("uint32")
	regScalar[uint64]("uint64")
	regScalar[float32]("float32")
	regScalar[float64]("float64")
	regScalar[DefI64]("def-int64")
	regScalar[DefU16]("def-uint16")
	regScalar[DefU32]("def-uint32")
	regScalar[DefF32]("def-float32")
	regScalar[DefI8]("def-int8")
	regPrefix[uint8]("uint8")
	regPrefix[uint16]("uint16")
	regPrefix[uint32]("uint32")
	regPrefix[uint64]("uint64")
	regPrefix[DefP8]("def-uint8")
	regPrefix[DefP16]("def-uint16")
	regPrefix[DefP32]("def-uint32")
}
