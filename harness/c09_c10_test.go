package harness

// C09 — decoding arbitrary bytes never panics or hangs: it returns a message or an error.
// C10 — decoding allocates memory in proportion to the input, never to a claimed length.

import (
	"bytes"
	"fmt"
	"runtime"
	"strings"
	"testing"

	"pgregory.net/rapid"
)

// allocation bound of C10: Δ TotalAlloc <= allocA + allocB*len(input)
const (
	allocA = 32 << 10
	allocB = 160
)

// inputBuffer: the bytes in a buffer that may have spare capacity behind them (a receive array reused for reading).
func inputBuffer(c *CaseBytes) *bytes.Buffer {
	in := make([]byte, len(c.W), len(c.W)+max(0, c.Spare))
	copy(in, c.W)
	junk := in[len(in):cap(in)]
	for i := range junk {
		junk[i] = 0xA5
	}
	return bytes.NewBuffer(in)
}

func oracleC09(c *CaseBytes) *Failure {
	// the prelude's decodes hand (possibly hostile) bytes to the library too: each is judged as an input in its own right
	for _, op := range c.Pre {
		if op.Kind == "dec" && regByName[op.Type] != nil {
			if f := oracleC09(&CaseBytes{Type: op.Type, W: op.W}); f != nil {
				return f
			}
		}
	}
	// armed before the prelude runs for real (its other calls belong to the case as well)
	armCase("C09", "c09", c.Type, "C09/"+c.Type+"/abort-or-hang", c)
	defer runPrelude(c.Pre)()
	obj := regByName[c.Type].New()
	buf := inputBuffer(c)
	armCase("C09", "c09", c.Type, "C09/"+c.Type+"/abort-or-hang", c)
	err, pan, stack := safely(func() error { return DecodeAny(obj, buf) })
	disarmCase()
	if pan != nil {
		return failf("C09/"+c.Type+"/panic", "Decode panicked on %d bytes %s: %v\n%s", len(c.W), hexClip(c.W), pan, stack)
	}
	_ = err // nil (a message) or non-nil: both fine
	return nil
}

var memA, memB runtime.MemStats

func oracleC10(c *CaseBytes) *Failure {
	for _, op := range c.Pre {
		if op.Kind == "dec" && regByName[op.Type] != nil {
			if f := oracleC10(&CaseBytes{Type: op.Type, W: op.W}); f != nil {
				return f
			}
		}
	}
	armCase("C10", "c10", c.Type, "C10/"+c.Type+"/abort-or-hang", c)
	defer runPrelude(c.Pre)()
	obj := regByName[c.Type].New()
	buf := inputBuffer(c)
	armCase("C10", "c10", c.Type, "C10/"+c.Type+"/abort-or-hang", c)
	runtime.ReadMemStats(&memA)
	_, pan, _ := safely(func() error { return DecodeAny(obj, buf) })
	runtime.ReadMemStats(&memB)
	disarmCase()
	if pan != nil {
		return nil // C09's business
	}
	delta := memB.TotalAlloc - memA.TotalAlloc
	bound := uint64(allocA + allocB*len(c.W))
	if len(c.W) > 0 {
		Col.MaxExtra("max_alloc_bytes_per_input_byte(inputs>=64B)", ratioIfLong(delta, len(c.W)))
	}
	Col.MaxExtra("max_alloc_bytes_single_decode", float64(delta))
	if len(c.W) >= 4096 {
		Col.MaxExtra("max_alloc_bytes_per_input_byte(inputs>=4KiB)", float64(delta)/float64(len(c.W)))
	}
	if delta > uint64(allocA) {
		Col.MaxExtra("max_ratio_when_alloc>32KiB", float64(delta)/float64(max(1, len(c.W))))
	}
	if delta > bound {
		return failf("C10/"+c.Type+"/alloc", "Decode of %d input bytes %s allocated %d bytes (bound %d = 32 KiB + 160 x input length)", len(c.W), hexClip(c.W), delta, bound)
	}
	if len(c.Twin) > 0 {
		// metamorphic (only for a list that ends the message): W differs from Twin only in overstating the count. Claiming more must not cost memory
		// beyond what the bytes present justify: alloc(W) <= alloc(Twin) + 32 KiB + 24 x len(W)
		// (24 x len covers a result slice pre-sized by the number of bytes still unread)
		obj2 := regByName[c.Type].New()
		b2 := bytes.NewBuffer(append([]byte{}, c.Twin...))
		runtime.ReadMemStats(&memA)
		_, pan2, _ := safely(func() error { return DecodeAny(obj2, b2) })
		runtime.ReadMemStats(&memB)
		if pan2 == nil {
			twin := memB.TotalAlloc - memA.TotalAlloc
			if delta > twin+uint64(allocA)+24*uint64(len(c.W)) {
				return failf("C10/"+c.Type+"/alloc-by-claim", "%d input bytes with an overstated count/length allocated %d bytes; the same bytes with the truthful prefix allocate %d (allowed difference 32 KiB + 24 x input length = %d)", len(c.W), delta, twin, allocA+24*len(c.W))
			}
		}
	}
	return nil
}

func ratioIfLong(delta uint64, n int) float64 {
	if n < 64 {
		return 0
	}
	return float64(delta) / float64(n)
}

func init() {
	registerReplay("c09", oracleC09)
	registerReplay("c10", oracleC10)
}

// maxPrefixInputs: for every count/length prefix of the type (located through the
// schema on a skeleton value), the prefix set to hostile values followed by at
// most 16 further bytes.
func maxPrefixInputs(tn string) (out [][]byte, labels []string) {
	ts := Types[tn]
	nkeys := 1
	if di := ts.DynIndex(); di >= 0 {
		nkeys = len(TableOf(ts, &ts.Fields[di]).Order)
	}
	seen := map[string]bool{}
	for k := 0; k < nkeys; k++ {
		sk := Skeleton(tn, k)
		r := Render(sk, &RenderOpts{Spans: true})
		for _, sp := range r.Spans {
			if sp.Kind != "count" && sp.Kind != "prefix" {
				continue
			}
			vals := []uint64{sp.Max, sp.Max - 1, 0x7ffffff0 & sp.Max, 0x80000000 & sp.Max, 0x00ffffff & sp.Max}
			for k := uint(8); k < uint(8*sp.Len); k++ { // every power of two >= 256 and its neighbours
				vals = append(vals, uint64(1)<<k, uint64(1)<<k+1, uint64(3)<<(k-1)&sp.Max, uint64(7)<<(k-2)&sp.Max)
			}
			for _, val := range vals {
				if val == 0 {
					continue
				}
				w := append([]byte{}, r.Bytes[:sp.Off]...)
				w = append(w, putUint(nil, val, sp.Len, ts.LE)...)
				rest := r.Bytes[sp.Off+sp.Len:]
				w = append(w, rest[:min(16, len(rest))]...)
				if !seen[string(w)] {
					seen[string(w)] = true
					out = append(out, w)
					labels = append(labels, fmt.Sprintf("%s=%#x", sp.Path, val))
				}
			}
		}
	}
	return
}

func genHostile(rt *rapid.T, tn string, maxSize int, hint int) (*CaseBytes, []string, bool) {
	ts := Types[tn]
	switch rapid.IntRange(0, 9).Draw(rt, "hk") {
	case 0: // pure random bytes
		w := rapid.SliceOfN(rapid.Byte(), 0, 96).Draw(rt, "random")
		if w == nil {
			w = []byte{}
		}
		return &CaseBytes{Type: tn, W: w}, []string{"random-bytes"}, false
	case 1: // random bytes dominated by 0xff / 0x7f / 0x00
		n := rapid.IntRange(0, 64).Draw(rt, "n")
		w := make([]byte, n)
		for i := range w {
			w[i] = rapid.SampledFrom([]byte{0xff, 0xff, 0x7f, 0x00, 0x80, 0x01, 0x20}).Draw(rt, "hb")
		}
		return &CaseBytes{Type: tn, W: w}, []string{"hostile-constants"}, true
	case 2: // valid, unmutated
		o := DefaultOpts(Wire)
		o.HugeObj = 0 // shards run under an address-space limit
		o.BigProb, o.MaxList = 30, maxSize
		v, _ := GenValue(rt, tn, o)
		return &CaseBytes{Type: tn, W: Render(v, nil).Bytes}, []string{"valid"}, false
	default:
		o := DefaultOpts(Wire)
		o.HugeObj = 0 // shards run under an address-space limit
		o.BigProb, o.MaxList = 60, 600
		if rapid.IntRange(0, 7).Draw(rt, "bigbase") == 0 { // a large valid message as the base of the mutation
			o.BigProb, o.MaxList = 3, 8000
		}
		v, _ := GenValue(rt, tn, o)
		r := Render(v, &RenderOpts{Spans: true})
		w, kind, over := mutateHostile(rt, r, ts.LE, hint)
		return &CaseBytes{Type: tn, W: w}, []string{"mutated:" + kind}, over
	}
}

func hostileRecord(prop string, c *CaseBytes, cls []string, over bool) {
	// classify by what the interpreter thinks of the input (not by what the library does)
	_, n, perr := Parse(c.Type, c.W)
	nt := over
	switch {
	case perr == nil:
		cls = append(cls, "schema-accepts")
		nt = true
	case n > 0:
		cls = append(cls, "rejected-after-some-fields")
		if prop == "C09" {
			nt = true
		}
	default:
		cls = append(cls, "rejected-at-first-field")
	}
	if over {
		cls = append(cls, "prefix-claims-more-than-present")
	}
	Col.Case(Hash64([]byte(c.Type), c.W), nt, cls...)
	Col.Program(c.Type)
	if nt && len(c.W) < 120 && Col.WantSample(cls[0]) {
		Col.Sample(cls[0], map[string]any{"type": c.Type, "w": hexClip(c.W), "classes": cls})
	}
}

func runHostile(t *testing.T, prop, check string, oracle func(*CaseBytes) *Failure) {
	// (1) enumerated: every count/length prefix of every type at hostile values with <=16 bytes following
	t.Run("maxprefix", func(t *testing.T) {
		for _, tn := range MyTypes() {
			ins, labels := maxPrefixInputs(tn)
			for i, w := range ins {
				c := &CaseBytes{Type: tn, W: w}
				hostileRecord(prop, c, []string{"enumerated-max-prefix"}, true)
				if !Direct(t, prop, check, "maxprefix/"+tn+"/"+labels[i], c, oracle) {
					break
				}
			}
		}
		Col.MarkExhaustive("every count/length prefix of every type (all registered keys of frames/extended messages) set to max, max-1, 0x7ffffff0, 0x80000000, 0x00ffffff and every 2^k, 2^k+1, 3*2^(k-1), 7*2^(k-2) >= 256, with <=16 bytes following")
	})
	// (1a) every list of every type with 2000 real elements present and the count overstated (max, 2n, n+1000):
	// the bytes present are many, the claim is larger still
	t.Run("biglists-overstated", func(t *testing.T) {
		for _, tn := range MyTypes() {
			ts := Types[tn]
			for fi, f := range ts.Fields {
				switch f.Kind {
				case "numlist", "fixtextlist", "textlist", "objlist":
				default:
					continue
				}
				const n = 2000
				if uint64(n) >= NMask(f.Count) {
					continue
				}
				// the relation is only sound when nothing follows the list: otherwise an overstated count makes the
				// decoder read the FOLLOWING bytes as elements, whose legitimate cost per byte may be far higher than
				// what those bytes cost in the truthful message
				lastField := fi == len(ts.Fields)-1
				v := Skeleton(tn, 0)
				x := &v.F[fi]
				switch f.Kind {
				case "numlist":
					x.NL = make([]uint64, n)
					for j := range x.NL {
						x.NL[j] = uint64(j) & NMask(f.NType)
					}
				case "fixtextlist", "textlist":
					x.TL = make([]HexBytes, n)
					for j := range x.TL {
						x.TL[j] = HexBytes("e")
					}
				case "objlist":
					e := x.OL[0]
					x.OL = make([]*Value, n)
					for j := range x.OL {
						x.OL[j] = e
					}
				}
				r := Render(v, &RenderOpts{Spans: true})
				for _, sp := range r.Spans {
					if sp.Kind != "count" || sp.Path != "$."+f.Go {
						continue
					}
					for _, nv := range []uint64{sp.Max, 2 * n, n + 1000} {
						if nv > sp.Max {
							continue
						}
						w := append([]byte{}, r.Bytes...)
						copy(w[sp.Off:], putUint(nil, nv, sp.Len, ts.LE))
						c := &CaseBytes{Type: tn, W: w}
						if lastField {
							c.Twin = r.Bytes
						}
						hostileRecord(prop, c, []string{"enumerated-big-list-overstated"}, true)
						if !Direct(t, prop, check, fmt.Sprintf("biglist/%s.%s/%d", tn, f.Go, nv), c, oracle) {
							break
						}
					}
				}
			}
		}
		Col.MarkExhaustive("every list field of every type with 2000 elements present and its count overstated (max, 4000, 3000), compared with the truthful message")
	})
	// (1b) every discriminator of every holder type overwritten with blank / zero / 0xff / near-miss values
	t.Run("discriminators", func(t *testing.T) {
		for _, tn := range MyTypes() {
			ts := Types[tn]
			if ts.DynIndex() < 0 {
				continue
			}
			tb := TableOf(ts, &ts.Fields[ts.DynIndex()])
			for k := range tb.Order {
				r := Render(Skeleton(tn, k), &RenderOpts{Spans: true})
				for _, sp := range r.Spans {
					if sp.Kind != "disc" || strings.Count(sp.Path, ".") != 1 {
						continue
					}
					orig := r.Bytes[sp.Off : sp.Off+sp.Len]
					variants := [][]byte{bytesOf(' ', sp.Len), bytesOf(0, sp.Len), bytesOf(0xff, sp.Len), bytesOf('0', sp.Len), bytesOf('9', sp.Len)}
					if sp.Len == 3 { // text keys that a number parser would accept or choke on
						for _, k := range []string{"-01", "-1 ", "-10", "-99", "+10", "+01", "1e1", "0x1", "1_0", " 10", "10 ", "1.0", "٣٣"[:3]} {
							variants = append(variants, []byte(k))
						}
						for _, reg := range tb.Order {
							if len(reg) == 3 {
								variants = append(variants, []byte{'+', reg[1], reg[2]}, []byte{'-', reg[1], reg[2]}, []byte{' ', reg[1], reg[2]})
							}
						}
					}
					for i := 0; i < sp.Len; i++ {
						for _, b := range []byte{' ', 0, orig[i] ^ 1, orig[i] + 1} {
							v := append([]byte{}, orig...)
							v[i] = b
							variants = append(variants, v)
						}
					}
					for _, nb := range variants {
						w := append([]byte{}, r.Bytes...)
						copy(w[sp.Off:], nb)
						c := &CaseBytes{Type: tn, W: w}
						hostileRecord(prop, c, []string{"enumerated-discriminator"}, false)
						if !Direct(t, prop, check, "disc/"+tn, c, oracle) {
							break
						}
					}
				}
			}
		}
		Col.MarkExhaustive("every registered key of every frame/extended message with its discriminator overwritten by blank, zero, 0xff, '000', '999' and every single-byte near miss")
	})
	// (2) every truncation of one valid encoding per type
	t.Run("truncations", func(t *testing.T) {
		for _, tn := range MyTypes() {
			b := Render(Skeleton(tn, 0), nil).Bytes
			for k := 0; k <= len(b); k++ {
				c := &CaseBytes{Type: tn, W: b[:k]}
				hostileRecord(prop, c, []string{"enumerated-truncation"}, false)
				if !Direct(t, prop, check, "trunc/"+tn, c, oracle) {
					break
				}
			}
		}
	})
	// (3) generated
	for _, tn := range MyTypes() {
		tn := tn
		t.Run(tn, func(t *testing.T) {
			CheckProp(t, prop, check, tn, func(rt *rapid.T) *CaseBytes {
				maxSize := 70000
				pre, hint := genPrelude(rt, tn, false)
				c, cls, over := genHostile(rt, tn, maxSize, hint)
				c.Pre = pre
				if rapid.IntRange(0, 5).Draw(rt, "spare") == 0 {
					c.Spare = rapid.SampledFrom([]int{1, 64, 4096, 65536, 1 << 20}).Draw(rt, "sparecap")
					cls = append(cls, "buffer-with-spare-capacity")
				}
				if len(pre) > 0 {
					cls = append(cls, "after-prior-calls")
				}
				hostileRecord(prop, c, cls, over)
				return c
			}, oracle)
		})
	}
}

func TestC09(t *testing.T) {
	Col.Property = "C09"
	ReplayRegress(t, "C09")
	runHostile(t, "C09", "c09", oracleC09)
	t.Run("scaling", c09Scaling)
}

func TestC10(t *testing.T) {
	Col.Property = "C10"
	ReplayRegress(t, "C10")
	runHostile(t, "C10", "c10", oracleC10)
	Col.Extra["alloc_bound"] = "absolute: 32768 + 160*len(input) bytes (TotalAlloc delta around one Decode); relative: an input that only overstates a count/length may allocate at most what its truthful twin allocates + 32768 + 24*len(input)"
}
