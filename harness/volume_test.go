package harness

// Volume runs: millions of DISTINCT short text values pushed through one process.
//
// Random search over single cases cannot meet a defect whose trigger is a coincidence between two values that were
// both decoded in the same process (a lookup table, an intern cache or a memo keyed by a short hash of the text: two
// different texts of equal length and equal 32-bit hash). Per pair the chance is 2^-32, but by the birthday effect a
// process that decodes N distinct values while such a table remembers the last W of them meets N*W/2^32 colliding
// pairs: with N = 10^8 and W = 10^3 that is dozens. So the checks below are tight loops (no rapid draw, no reflection
// per value beyond a string assignment), each a pure function of (salt, count, mode) and therefore replayable; the
// values are expanded from the salt by splitmix, like the long lists of the other generators.
//
//   C13: field write + read at primitive level against the 6-line reference;
//   C01: message encode -> decode, text fields compared with what was put in;
//   C08: the same bytes decoded and re-encoded must be reproduced.

import (
	"bytes"
	"fmt"
	"reflect"
	"testing"

	"github.com/xinchentechnote/fin-proto-go/codec"
)

type CaseVolume struct {
	Kind  string `json:"kind"` // fixtext-prim | message
	Type  string `json:"type,omitempty"`
	Width int    `json:"width,omitempty"` // fixtext-prim: field width
	Pad   int    `json:"pad,omitempty"`
	Left  bool   `json:"left,omitempty"`
	L     int    `json:"l"`    // text length (clipped to each field's width at message level)
	Mode  string `json:"mode"` // random | counter-suffix | counter-prefix | revisit
	Salt  uint64 `json:"salt"`
	Count int    `json:"count"`
	Judge string `json:"judge,omitempty"` // message: "value" (C01) or "bytes" (C08)
}

const volAlphabet = "ABCDEFGHIJKLMNOPQRSTUVWXYZabcdefghijklmnopqrstuvwxyz0123456789+/"

// volText writes the i-th value of the case into dst (len(dst) bytes); no byte equals avoid.
func volText(dst []byte, c *CaseVolume, i uint64, avoid byte) {
	idx := i
	if c.Mode == "revisit" && splitmix(c.Salt^i)%3 == 0 && i > 8 {
		idx = i - 1 - splitmix(c.Salt+i)%8 // an earlier value comes back (table hits)
	}
	x := splitmix(c.Salt ^ (idx * 0x9E3779B97F4A7C15))
	switch c.Mode {
	case "counter-suffix", "counter-prefix":
		// a constant stem with a base-64 counter at one end (order ids, sequence numbers)
		y := splitmix(c.Salt)
		for k := range dst {
			if k%10 == 0 {
				y = splitmix(y)
			}
			dst[k] = volAlphabet[(y>>(6*uint(k%10)))&63]
		}
		n := idx
		for k := 0; k < len(dst) && k < 6; k++ {
			p := len(dst) - 1 - k
			if c.Mode == "counter-prefix" {
				p = k
			}
			dst[p] = volAlphabet[n&63]
			n >>= 6
		}
	default:
		for k := range dst {
			if k%10 == 0 && k > 0 {
				x = splitmix(x)
			}
			dst[k] = volAlphabet[(x>>(6*uint(k%10)))&63]
		}
	}
	for k := range dst {
		if dst[k] == avoid {
			dst[k] = '~'
			if avoid == '~' {
				dst[k] = '!'
			}
		}
	}
}

func oracleVolume(c *CaseVolume) *Failure {
	if c.Kind == "fixtext-prim" {
		return volumePrim(c)
	}
	return volumeMessage(c)
}

func volumePrim(c *CaseVolume) *Failure {
	pad := byte(c.Pad)
	l := min(c.L, c.Width)
	s := make([]byte, l)
	var buf bytes.Buffer
	side := "right"
	if c.Left {
		side = "left"
	}
	for i := 0; i < c.Count; i++ {
		volText(s, c, uint64(i), pad)
		buf.Reset()
		if err := codec.WriteFixedStringWithPadding(&buf, string(s), c.Width, rune(pad), c.Left); err != nil {
			return failf("C13/WriteFixedStringWithPadding/volume", "value %d of a run of distinct values (%q, N=%d pad %#x %s): %v", i, s, c.Width, pad, side, err)
		}
		if want := refFixedWrite(s, c.Width, pad, c.Left); !bytes.Equal(buf.Bytes(), want) {
			return failf("C13/WriteFixedStringWithPadding/volume", "value %d of a run of distinct values: %q into N=%d pad %#x %s wrote %q, reference %q", i, s, c.Width, pad, side, buf.Bytes(), want)
		}
		got, err := codec.ReadFixedStringTrimPadding(&buf, c.Width, rune(pad), c.Left)
		if err != nil || got != string(s) || buf.Len() != 0 {
			prev := volFindEarlier(c, uint64(i), got, pad, l)
			return failf("C13/ReadFixedStringTrimPadding/volume", "value %d of a run of distinct %d-byte values in one process: field holding %q (N=%d pad %#x %s) read back as %q (err=%v)%s", i, l, s, c.Width, pad, side, got, err, prev)
		}
	}
	return nil
}

// volFindEarlier: was the wrong text an earlier value of the same run?
func volFindEarlier(c *CaseVolume, i uint64, got string, avoid byte, l int) string {
	if len(got) != l {
		return ""
	}
	t := make([]byte, l)
	for j := i; j > 0 && i-j < 1<<21; j-- {
		volText(t, c, j-1, avoid)
		if string(t) == got {
			return fmt.Sprintf(" - that is value %d of the same run, read %d values earlier", j-1, i-(j-1))
		}
	}
	return ""
}

type volField struct {
	idx   int // struct field index
	width int // 0: length-prefixed text
	pad   byte
}

func volumeMessage(c *CaseVolume) *Failure {
	ts := Types[c.Type]
	obj := ToStruct(Skeleton(c.Type, 0))
	rv := reflect.ValueOf(obj).Elem()
	disc := discOf(ts)
	var fields []volField
	for _, f := range ts.Fields {
		if (f.Kind != "fixtext" && f.Kind != "text") || f.Go == disc {
			continue
		}
		sf, ok := rv.Type().FieldByName(f.Go)
		if !ok || sf.Type.Kind() != reflect.String {
			continue
		}
		vf := volField{idx: sf.Index[0], pad: byte(f.Pad)}
		if f.Kind == "fixtext" {
			vf.width = f.Width
			if f.Width == 0 {
				continue
			}
		}
		fields = append(fields, vf)
	}
	if len(fields) == 0 {
		return nil
	}
	vals := make([][]byte, len(fields))
	for k, vf := range fields {
		l := c.L
		if vf.width > 0 {
			l = min(l, vf.width)
		}
		vals[k] = make([]byte, l)
	}
	var out, again bytes.Buffer
	pfx := "C01/"
	if c.Judge == "bytes" {
		pfx = "C08/"
	}
	for i := 0; i < c.Count; i++ {
		for k, vf := range fields {
			volText(vals[k], c, uint64(i)*uint64(len(fields))+uint64(k), vf.pad)
			rv.Field(vf.idx).SetString(string(vals[k]))
		}
		out.Reset()
		if err, pan, _ := safely(func() error { return EncodeAny(obj, &out) }); err != nil || pan != nil {
			return nil // not this check's business (C17 / C01 judge single values)
		}
		wire := out.Bytes()
		dec := regByName[c.Type].New()
		in := bytes.NewBuffer(append(make([]byte, 0, len(wire)), wire...))
		err, pan, _ := safely(func() error { return DecodeAny(dec, in) })
		if err != nil || pan != nil {
			return failf(pfx+c.Type+"/volume", "message %d of a run of messages with distinct text values: Decode of the library's own encoding failed: err=%v panic=%v", i, err, pan)
		}
		if c.Judge == "bytes" {
			again.Reset()
			if err, pan, _ := safely(func() error { return EncodeAny(dec, &again) }); err != nil || pan != nil || !bytes.Equal(again.Bytes(), wire) {
				return failf("C08/"+c.Type+"/volume", "message %d of a run of messages with distinct %d-byte text values decoded in one process: re-encoding the decoded message does not reproduce the accepted bytes (err=%v panic=%v, first difference at byte %d of %d)", i, c.L, err, pan, firstDiff(again.Bytes(), wire), len(wire))
			}
			continue
		}
		dv := reflect.ValueOf(dec).Elem()
		for k, vf := range fields {
			if got := dv.Field(vf.idx).String(); got != string(vals[k]) {
				return failf("C01/"+c.Type+"/volume", "message %d of a run of messages with distinct text values decoded in one process: %s.%s was encoded as %q and decoded as %q", i, c.Type, rv.Type().Field(vf.idx).Name, vals[k], got)
			}
		}
	}
	return nil
}

func init() { registerReplay("volume", oracleVolume) }

// volTypes: this shard's types that have text fields, prefixed-text types first.
func volTypes() (out []string) {
	for pass := 0; pass < 2; pass++ {
		for _, tn := range MyTypes() {
			has, pre := false, false
			for _, f := range Types[tn].Fields {
				if f.Kind == "fixtext" && f.Go != discOf(Types[tn]) {
					has = true
				}
				if f.Kind == "text" {
					has, pre = true, true
				}
			}
			if has && (pass == 0) == pre {
				out = append(out, tn)
			}
		}
	}
	return
}

func runVolume(t *testing.T, prop string) {
	x := splitmix(EnvSeed() ^ 0x701)
	modes := []string{"random", "random", "counter-suffix", "revisit", "counter-prefix"}
	scale := 1
	if Thorough() {
		scale = 8
	}
	judge := func(c *CaseVolume, cls string, reads int64) bool {
		Col.Case(Hash64(JSONOf(c)), true, cls)
		Col.Class("volume: text values pushed through one process", reads)
		if Col.WantSample("volume") {
			Col.Sample("volume", c)
		}
		return Direct(t, prop, "volume", fmt.Sprintf("volume/%s/%s/%d", c.Kind, c.Type, c.L), c, oracleVolume)
	}
	switch prop {
	case "C13":
		shapes := []struct {
			w, pad int
			left   bool
		}{{8, ' ', false}, {10, '0', true}, {16, 0, false}, {6, ' ', true}, {32, ' ', false}, {3, ' ', false}, {12, 0x80, true}, {20, ' ', false}}
		for k := 0; k < 12*scale; k++ {
			x = splitmix(x)
			sh := shapes[k%len(shapes)]
			c := &CaseVolume{Kind: "fixtext-prim", Width: sh.w, Pad: sh.pad, Left: sh.left, L: 1 + int(x%uint64(sh.w)), Mode: modes[k%len(modes)], Salt: x, Count: 1 << 20}
			if k%3 == 0 {
				c.L = sh.w
			}
			if !judge(c, "volume-run-of-2^20-distinct-values-through-one-field-shape", int64(c.Count)) {
				return
			}
		}
	default:
		types := volTypes()
		if len(types) == 0 {
			return
		}
		budget := 2400000 * scale // message round trips per shard
		for k, tn := range types {
			x = splitmix(x)
			n := budget / len(types)
			for _, f := range Types[tn].Fields {
				if f.Kind == "text" {
					n *= 3
					break
				}
			}
			c := &CaseVolume{Kind: "message", Type: tn, L: 4 + int(x%9), Mode: modes[k%len(modes)], Salt: x, Count: n, Judge: map[string]string{"C01": "value", "C08": "bytes"}[prop]}
			Col.Program(tn)
			if !judge(c, "volume-run-of-messages-with-distinct-text-values", int64(n)) {
				return
			}
		}
	}
}
