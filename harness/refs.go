package harness

// Reference implementations used as oracles. Written to be structurally unlike
// the library: the CRC is the generic Rocksoft model, MSB-first with explicit
// reflection (the library's CRC16 is an LSB-first loop and its CRC32 is
// hash/crc32); byte sums accumulate in uint64.

func refFixedWrite(s []byte, n int, pad byte, left bool) []byte {
	out := make([]byte, n)
	if len(s) >= n {
		copy(out, s[:n])
		return out
	}
	for i := range out {
		out[i] = pad
	}
	if left {
		copy(out[n-len(s):], s)
	} else {
		copy(out, s)
	}
	return out
}

func refFixedRead(w []byte, pad byte, left bool) []byte {
	i, j := 0, len(w)
	if left {
		for i < j && w[i] == pad {
			i++
		}
	} else {
		for j > i && w[j-1] == pad {
			j--
		}
	}
	return append([]byte{}, w[i:j]...)
}

func reflectBits(v uint64, width uint) uint64 {
	var r uint64
	for i := uint(0); i < width; i++ {
		if v&(1<<i) != 0 {
			r |= 1 << (width - 1 - i)
		}
	}
	return r
}

// refCRC: Rocksoft^tm model CRC (bitwise definition).
func refCRCBitwise(data []byte, width uint, poly, init uint64, refin, refout bool, xorout uint64) uint64 {
	top := uint64(1) << (width - 1)
	mask := (top << 1) - 1
	reg := init & mask
	for _, b := range data {
		c := uint64(b)
		if refin {
			c = reflectBits(c, 8)
		}
		reg ^= c << (width - 8)
		for i := 0; i < 8; i++ {
			if reg&top != 0 {
				reg = ((reg << 1) ^ poly) & mask
			} else {
				reg = (reg << 1) & mask
			}
		}
	}
	if refout {
		reg = reflectBits(reg, width)
	}
	return (reg ^ xorout) & mask
}

type crcModel struct {
	width         uint
	poly, init    uint64
	refin, refout bool
	xorout        uint64
	table         [256]uint64 // MSB-first byte table derived from the bitwise definition
	rev           [256]uint64 // bit-reversed byte values
}

func newCRCModel(width uint, poly, init uint64, refin, refout bool, xorout uint64) *crcModel {
	m := &crcModel{width: width, poly: poly, init: init, refin: refin, refout: refout, xorout: xorout}
	top := uint64(1) << (width - 1)
	mask := (top << 1) - 1
	for b := 0; b < 256; b++ {
		reg := uint64(b) << (width - 8)
		for i := 0; i < 8; i++ {
			if reg&top != 0 {
				reg = ((reg << 1) ^ poly) & mask
			} else {
				reg = (reg << 1) & mask
			}
		}
		m.table[b] = reg
		m.rev[b] = reflectBits(uint64(b), 8)
	}
	// self-check of the table form against the bitwise definition
	probe := []byte("123456789\x00\xff\x80fin-proto")
	if m.sum(probe) != refCRCBitwise(probe, width, poly, init, refin, refout, xorout) {
		panic("reference CRC table form disagrees with its bitwise definition")
	}
	return m
}

func (m *crcModel) sum(data []byte) uint64 {
	mask := (uint64(1) << m.width) - 1
	reg := m.init & mask
	sh := m.width - 8
	for _, b := range data {
		c := uint64(b)
		if m.refin {
			c = m.rev[b]
		}
		reg = ((reg << 8) ^ m.table[((reg>>sh)^c)&0xff]) & mask
	}
	if m.refout {
		reg = reflectBits(reg, m.width)
	}
	return (reg ^ m.xorout) & mask
}

var (
	crc16ModbusModel = newCRCModel(16, 0x8005, 0xFFFF, true, true, 0)
	crc32IEEEModel   = newCRCModel(32, 0x04C11DB7, 0xFFFFFFFF, true, true, 0xFFFFFFFF)
)

func refCRC(data []byte, width uint, poly, init uint64, refin, refout bool, xorout uint64) uint64 {
	return refCRCBitwise(data, width, poly, init, refin, refout, xorout)
}

func refCRC16Modbus(d []byte) uint16 { return uint16(crc16ModbusModel.sum(d)) }
func refCRC32IEEE(d []byte) uint32   { return uint32(crc32IEEEModel.sum(d)) }
func refByteSum(d []byte) uint64 {
	var s uint64
	for _, b := range d {
		s += uint64(b)
	}
	return s % 256
}

// refChecksum dispatches on the pinned algorithm name of a frame.
func refChecksum(algo string, d []byte) uint64 {
	switch algo {
	case "SSE_BIN", "SZSE_BIN":
		return refByteSum(d)
	case "CRC32":
		return uint64(refCRC32IEEE(d))
	case "CRC16":
		return uint64(refCRC16Modbus(d))
	}
	panic("unknown checksum algorithm " + algo)
}

// splitmix64: deterministic expansion of one drawn salt into many elements.
func splitmix(x uint64) uint64 {
	x += 0x9E3779B97F4A7C15
	x = (x ^ (x >> 30)) * 0xBF58476D1CE4E5B9
	x = (x ^ (x >> 27)) * 0x94D049BB133111EB
	return x ^ (x >> 31)
}
